#!/bin/sh
# Builds /verif/.venv: an overlay on /venv's interpreter (python 3.12, has monkeytype's
# dependencies) plus crosshair-tool / z3-solver / cvc5 from the offline wheelhouse.
# Idempotent, offline, guarded by a lock so that concurrent checks do not race.
set -e
HERE="$(cd "$(dirname "$0")" && pwd)"
VENV="$HERE/.venv"
WHEELS=/opt/veriftools/wheels
exec 9>"$HERE/.venv.lock"
flock 9
if [ -x "$VENV/bin/python" ] && "$VENV/bin/python" -c "import crosshair, z3, cvc5, libcst, mypy_extensions" 2>/dev/null; then
    exit 0
fi
rm -rf "$VENV"
/venv/bin/python -m venv "$VENV"
SP="$("$VENV/bin/python" -c 'import sysconfig; print(sysconfig.get_path("purelib"))')"
# /venv is itself a venv, so --system-site-packages would skip it: add its site dir by hand.
echo "import site; site.addsitedir('/venv/lib/python3.12/site-packages')" > "$SP/zz_venv_overlay.pth"
PIP_NO_INDEX=1 "$VENV/bin/python" -m pip install --quiet --no-index --find-links "$WHEELS" crosshair-tool cvc5 z3-solver jsonschema >/dev/null
"$VENV/bin/python" -c "import crosshair, z3, cvc5, libcst, mypy_extensions; print('verif venv ready:', z3.get_version_string(), cvc5.__version__)"
PYTHONDONTWRITEBYTECODE=1 "$VENV/bin/python" "$HERE/tools/selftest.py"
