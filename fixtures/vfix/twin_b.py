"""One of two modules with byte-identical source (think of a helper module vendored into two packages): the code objects
of their functions compare equal -- code objects compare by value and ignore co_filename -- yet they are different
functions of different modules."""


def twin_same(x):
    return x


class Twin:
    def method(self, y):
        return [y]
