class U:
    pass


class V:
    class W:
        pass
