"""Fixture package used by the verification harnesses (importable: /verif/fixtures is put on sys.path)."""
