"""A Config whose store serves whatever rows the harness puts there (used with `monkeytype -c vfix.cfg:CONFIG`)."""
from monkeytype.config import Config
from monkeytype.db.base import CallTraceStore


class ListStore(CallTraceStore):
    def __init__(self):
        self.rows = []
        self.queries = []

    def add(self, traces):
        raise AssertionError("not used")

    def filter(self, module, qualname_prefix=None, limit=2000):
        self.queries.append((module, qualname_prefix, limit))
        return list(self.rows)

    def list_modules(self):
        return sorted({r.module for r in self.rows})

    def __ch_deep_realize__(self, memo):
        return self


class ListConfig(Config):
    def __init__(self):
        self.store = ListStore()
        self.k = 0
        self.rewriter = None

    def trace_store(self):
        return self.store

    def max_typed_dict_size(self):
        return self.k

    def type_rewriter(self):
        from monkeytype.typing import NoOpRewriter

        return self.rewriter if self.rewriter is not None else NoOpRewriter()

    def __ch_deep_realize__(self, memo):
        return self


CONFIG = ListConfig()
