"""Module whose dotted name is a textual suffix of vfix.pkg.utils."""


class U:
    pass


class utils:  # class named like its module
    pass
