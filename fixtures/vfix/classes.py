"""User class hierarchy for the value and type grammars."""
from typing import NewType


class A:
    pass


class B(A):
    pass


class C(A):
    pass


class D(B, C):  # multiple inheritance
    pass


class E:  # unrelated root
    pass


class Outer:
    class Inner:
        class Deep:
            pass


class MyList(list):
    pass


class MyDict(dict):
    pass


# diamond used by the large-union order-dependence harness
class P:
    pass


class Q:
    pass


class X1(P, Q):
    pass


class X2(P, Q):
    pass


class X3(P, Q):
    pass


class Y1(Q, P):
    pass


class Y2(Q, P):
    pass


class Y3(Q, P):
    pass


UserId = NewType("UserId", int)


def plain_function(x):
    return x


class HasMethod:
    def method(self):
        return 1


def gen_function():
    yield 1


# classes whose metaclass is not `type` (enum.EnumMeta, abc.ABCMeta): importable, traceable, and they must round-trip
import abc  # noqa: E402
import enum  # noqa: E402


class Color(enum.Enum):
    RED = 1


class Abstract(abc.ABC):
    pass


class Concrete(Abstract):
    pass


# two classes inheriting from two unrelated bases next to classes deriving from the second base only
class Measured:
    pass


class Drawable:
    pass


class Arc(Measured, Drawable):
    pass


class Box(Measured, Drawable):
    pass


class Dot(Drawable):
    pass


class Line(Drawable):
    pass


class Poly(Drawable):
    pass


class Ring(Drawable):
    pass
