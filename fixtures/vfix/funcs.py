"""Functions of every kind for the tracer, encoding and stub harnesses."""
import functools
from typing import Any, Dict, Generator, Iterator, List, Optional, Union

from vfix.classes import A, B, UserId


def mod_func(a, b):
    return a


def no_args():
    return 1


def const_return(a):
    return 7


def implicit_none(a):
    a


def raises(a):
    raise ValueError(a)


def defaults(a, b=1, c=None):
    return a


def pos_only(a, b, /, c):
    return c


def kw_only(a, *, k, j=2):
    return k


def var_args(a, *args, **kwargs):
    return a


def all_kinds(p, /, q, r=3, *rest, s, t=None, **more):
    return q


def gen_func(n):
    for i in range(n):
        yield i


def gen_returning(n):
    yield n
    return "done"


def gen_rebinding(x):
    x = "rebound"
    yield 1
    x = [1]
    yield 2


async def coro_func(x):
    return x


def recursive(n):
    if n <= 0:
        return 0
    return recursive(n - 1)


def decorator(f):
    @functools.wraps(f)
    def wrapper(*a, **k):
        return f(*a, **k)

    return wrapper


@decorator
def wrapped_func(a):
    return a


def outer_closure(a):
    def inner(b):
        return (a, b)

    return inner(a)


class Base:
    def inherited(self, a):
        return a

    def overridden(self, a):
        return a


class Klass(Base):
    def __init__(self, v=0):
        self._v = v

    def method(self, a):
        return a

    @classmethod
    def cmethod(cls, a):
        return a

    @staticmethod
    def smethod(a):
        return a

    @property
    def prop(self):
        return self._v

    @property
    def settable(self):
        return self._v

    @settable.setter
    def settable(self, v):
        self._v = v

    def overridden(self, a):
        return super().overridden(a)

    async def acoro(self, a):
        return a

    def gen_method(self, a):
        yield a

    class Nested:
        def nested_method(self, a):
            return a

        class Deeper:
            def deep_method(self, a):
                return a


# partially annotated functions (C13)
def ann_class(a: A, b) -> B:
    return B()


def ann_generic(a: List[int], b: Dict[str, int]) -> Optional[int]:
    return None


def ann_optional(a: Optional[A], b: int = None):  # noqa: RUF013 - implicit Optional on purpose
    return None


def ann_string(a: "A", b) -> "B":
    return B()


def ann_newtype(a: UserId, b):
    return a


def ann_none_default(a: int = None, b=None):  # noqa: RUF013
    return a


def ann_iter(n: int) -> Iterator[int]:
    yield n


def ann_any(a: Any, b):
    return a


def unannotated(a, b):
    return a


NOT_A_FUNCTION = 3


@decorator
@decorator
def double_wrapped(a):
    return a


class Deco:
    @classmethod
    @decorator
    @decorator
    def build(cls, a):
        return a

    def annotated_self(self: "Deco", a):
        return a

    @classmethod
    def annotated_cls(cls: type, a: int):
        return a


def ann_union_none_default(key: Union[int, str] = None, other=None):  # noqa: RUF013
    return key


class WithCached:
    @functools.cached_property
    def cached(self):
        return 1


# ---- added for the recorded real-run harness (C02): delegation, exception exits, escaping closures
def gen_words(n):
    for _ in range(n):
        yield "w"


def gen_delegating(n):
    yield n
    yield from gen_words(n)
    return 2.5


def caught_inside(a):
    try:
        raises(a)
    except ValueError:
        return "caught"


def gen_raising(n):
    yield n
    raise KeyError(n)


def make_recursive():
    def rec(n):
        return 0 if n <= 0 else rec(n - 1)

    return rec


def takes_dict(d, *rest, flag=False, **more):
    return [d]


def star_then_kwonly(first, *rest, sep, end="\n"):
    return sep


async def coro_awaiting(x):
    import asyncio

    await asyncio.sleep(0)
    await asyncio.sleep(0)
    return [x]


class LazyAttr:
    """A non-data descriptor (has __get__, no __set__): what a method becomes when it is replaced by a lazy attribute."""

    def __get__(self, obj, owner=None):
        return 1


class WithLazy:
    lazy = LazyAttr()


# ---- C13 additions: annotated variadics, string annotation with a None default, generator annotated Generator[...]
def ann_variadic(a, *args: int, **kwargs: str):
    return a


def ann_string_none_default(w: "A" = None, b=None):  # noqa: RUF013
    return w


def ann_gen_source(n: int) -> Generator[int, None, None]:
    yield n


# ---- round 3 additions to the recorded workload (C02 / C01 realrun)
def gen_mixed(a):
    """Yields a container first and then a bare value of its element type (and the other way round)."""
    yield [1, 2]
    yield 3
    yield (1, "x")
    yield "y"
    yield A
    yield A()


class L1:
    def chained(self, a):
        return a

    @classmethod
    def cchained(cls, a):
        return a


class L2(L1):
    def chained(self, a):
        return super().chained(a)

    @classmethod
    def cchained(cls, a):
        return super().cchained(a)


class L3(L2):
    def chained(self, a):
        return super().chained(a)

    @classmethod
    def cchained(cls, a):
        return super().cchained(a)


def posonly_star(a, b=2, /, *rest, **more):
    return a


async def agen_func(n):
    yield n


# ---- C10 additions: names that used to be functions and are now callable objects that are not functions
class CallableThing:
    def __call__(self, a):
        return a


CALLABLE_OBJ = CallableThing()
PARTIAL = functools.partial(mod_func, 1)


async def coro_rebinding(key):
    """Rebinds its parameter to another type before it really suspends."""
    import asyncio

    key = str(key)
    await asyncio.sleep(0)
    return key


def ann_newtype_none_default(a: UserId = None, b=None):  # noqa: RUF013
    return a
