"""C08 -- types and call traces survive serialisation unchanged."""
from engine.runner import Job, run_check
import harness.c08 as H

PID = "C08"
ASSUMPTIONS = [
    "types come from (a) the type grammar (anonymous TypedDicts with required/optional keys, nested; Tuple[()], Tuple[T, ...], Type[C], "
    "nested classes, Generator, DefaultDict, unions) and (b) real inference over pairs of grammar values for every k >= 0 (symbolic), optionally "
    "followed by DEFAULT_REWRITER",
    "oracle: struct_eq(decode(encode(T)), T) with no use of ==; determinism: an independently rebuilt structurally identical type (fresh "
    "TypedDict classes, fields inserted in reverse order) must give byte-identical JSON",
    "trace round trip over fixture functions (module function, method, classmethod, staticmethod, read-only property, functools.wraps-decorated, "
    "inherited, methods of nested classes one and two levels deep, generator, coroutine, keyword-only parameters) with return / yield each "
    "absent, NoneType or a type: the same function object, struct_eq argument types, absent kept distinct from NoneType",
    "json and importlib are C / IO boundaries: data is concrete per path when it reaches them",
]


def run(tier):
    def J(name, budget, prefix, rule):
        return Job("harness.c08", name, H.shards(name, prefix), budget, bounds=dict(harness=name), rule=rule, describe=H.describe)
    if tier == "quick":
        jobs = [J("rt_types_enc1", 200, 3, "one path = one type shape"), J("rt_inferred_tiny", 200, 3, "one path = pair of value shapes x k class x rewriter on/off"),
                J("rt_trace", 400, 4, "one path = function x bound arguments x arg/return/yield slots")]
    else:
        jobs = [J("rt_types_enc1", 60, 3, "one path = one type shape"), J("rt_inferred_tiny", 60, 3, "pairs of value shapes x k class x rewriter on/off"),
                J("rt_types_enc2", 400, 4, "one path = one type shape (depth 2)"),
                J("rt_inferred_small", 400, 3, "pairs of value shapes x k class x rewriter on/off"),
                J("rt_inferred_quick", 400, 3, "pairs of value shapes x k class x rewriter on/off"),
                J("rt_trace", 300, 4, "function x bound arguments x slots")]
    return run_check(PID, tier, jobs, H.FUNCTIONS, ASSUMPTIONS)
