"""C05 -- inferred types are tight: every alternative is witnessed by an observed value."""
from engine.runner import run_check
import harness.c04 as H
from checks.c04 import jobs

PID = "C05"
ASSUMPTIONS = [
    "same exploration space as C04 (value grammar harness/values.py, k >= 0 symbolic)",
    "oracle harness/oracles.py witnessed(): lock-step walk of the merged type and the observed values; each union alternative must be exactly "
    "witnessed by some non-empty subset of the values it describes; class names exact (type(v) is C); Any only in an element/key/value slot "
    "for which an empty container was observed; TypedDict key required <=> present in every observed str-keyed dict at that position",
    "interpretation: Iterator[Any] for a generator object, bare Callable and Type[C] are atoms (their contents are unobservable), not 'Any without an empty container'",
    "checked before any rewriter runs, as the property states",
]


def run(tier):
    return run_check(PID, tier, jobs(tier, "tight"), H.FUNCTIONS, ASSUMPTIONS)
