"""C14 -- stub content depends only on the set of traces, not their order or process."""
from engine.runner import Job, run_check
import harness.c14 as H

PID = "C14"
ASSUMPTIONS = [
    "per-process hashing and memory layout are modelled by an environment stub: the name `set` in monkeytype.stubs' globals is bound to a PermSet "
    "whose iteration order is chosen by solver-decided tape symbols (the first two positions of every set of traces/types are free; a set keeps one "
    "order while unmodified, as real sets do; sets of import-name strings keep insertion order because every consumer sorts them). Assumption: sets "
    "are the only hash-ordered structure the stub pipeline uses (dicts iterate in insertion order, which the row permutation covers)",
    "rows: 2 (quick) / 3 (thorough) traces of two fixture functions with tape-decoded argument values and return types, an arbitrary permutation and "
    "(thorough) one duplication of the row list; k in {0, 3}; NoOpRewriter and DEFAULT_REWRITER",
    "dedicated large-union cases (more members than RewriteLargeUnion's limit, one trace each, every rotation/reversal of the rows and free set order): "
    "six classes over a diamond X*(P, Q) / Y*(Q, P); six homogeneous tuple shapes over one and over two element types; dict unions with an empty dict; "
    "plain classes with and without a common base",
    "store level: three calls of a generator / function logged through the real tracer into a real in-memory SQLite store in two different orders, with "
    "one call duplicated and a different split into batches; the stubs generated from both stores must agree",
    "oracle: the two stubs are textually equal, or they evaluate (harness/stubeval.py) to the same functions, imports, generated classes and "
    "annotations up to the order of union members",
    "runs: the stub of one trace is generated, then six other generations follow (another fixture function; its default-None parameter observed with one of 6 "
    "non-None types: scalars, containers, a class, a str-keyed dict) is generated in the same process, then the first stub again: "
    "both must agree (nothing leaks from one generation into the next)",
    "order3u: three rows from {[], [1], {'a': 1, 'b': 's'}, set(), None} (an empty container, a non-empty one of the same kind, a member containing a "
    "union), default rewriter, k = 0, all row orders",
    "outside the claim: actually varying PYTHONHASHSEED across interpreter processes (subsumed by the symbolic set order under the stated "
    "assumption); splitting into batches/connections at the SQLite level is covered by C09's deduplication query check",
]


def run(tier):
    q = tier == "quick"
    specs = [("order2q", 500, 5), ("diamond1", 300, 3), ("store_order2", 500, 6), ("samesig", 300, 4), ("runs", 200, 5), ("order3u", 120, 2)] if q else [("runs", 200, 5), ("order3u", 120, 2), ("samesig", 200, 4), ("order2q", 240, 5), ("order2", 500, 6), ("order3", 500, 6), ("diamond", 400, 4), ("store_order2", 240, 6), ("store_order", 400, 6)]
    jobs = [Job("harness.c14", n, H.shards(n, pre), b, bounds=dict(harness=n), rule="one path = (traces, k, rewriter, row permutation/duplication, set iteration orders)",
                describe=H.describe) for n, b, pre in specs]
    return run_check(PID, tier, jobs, H.FUNCTIONS, ASSUMPTIONS)
