"""C01 -- emitted annotations admit every value seen at runtime (run -> store -> stub)."""
from engine.runner import Job, run_check
import harness.pipeline as H
import harness.c02 as H2

PID = "C01"
ASSUMPTIONS = [
    "the whole pipeline runs on real code per path: CallTracer on model frames carrying the values (real code objects of fixture functions, f_lasti at "
    "a real RETURN_*/YIELD_VALUE instruction) -> CallTraceStoreLogger -> SQLiteStore on an in-memory SQLite database -> filter -> to_trace -> "
    "cli.get_stub -> rewriter -> renderers; the stub TEXT is parsed by harness/stubeval.py and every observed value must be a member "
    "(harness/oracles.py conforms) of the annotation evaluated with the names the stub provides",
    "k >= 0 is one symbolic integer configuring both the tracer and stub generation; it only ever meets Python comparisons (rows crossing SQLite "
    "are concrete per path)",
    "configurations: quick = 15 (function kind, rewriter, CLI flag) combinations covering every shipped rewriter, the default chain, "
    "--disable-type-rewriting and the three annotation strategies; thorough adds the full kind x rewriter x flag matrix",
    "positions that the chosen strategy leaves to the source annotation are excluded (REPLICATE/OMIT on an annotated parameter)",
    "the interpreter's event delivery is the environment contract of C02 (validated natively each run); `monkeytype run` subprocess plumbing is outside",
]


def run(tier):
    def J(name, budget, prefix):
        _b, g, n, full = H._CFG[name]
        return Job("harness.pipeline", name, H.shards(name, prefix), budget,
                   bounds=dict(values=g.describe(), calls=n, configurations="full matrix" if full is True else ([list(H.CONFIGS[0])] if full == "single" else [list(H.CONFIGS[i]) for i in full] if isinstance(full, tuple) else [list(c) for c in H.CONFIGS]),
                               k="all integers >= 0 (symbolic)"),
                   rule="one path = (configuration, call history shapes, k class)", describe=H.describe)
    jobs = [J("c01_quick", 300, 5), J("c01_nestedx", 200, 6), J("c01_tuples", 200, 4), J("c01_odd_quick", 300, 3), J("c01_gen2", 100, 3), J("c01_nestedalt", 200, 6)] if tier == "quick" else [J("c01_quick", 200, 5), J("c01_tuples", 100, 4), J("c01_odd", 200, 3), J("c01_gen2", 60, 3), J("c01_nestedalt", 100, 6), J("c01_nestedx", 200, 6), J("c01_nested2", 200, 6), J("c01_nested", 300, 7), J("c01_medium", 300, 5), J("c01_matrix", 300, 6), J("c01_three", 300, 5), J("c01_thorough", 300, 5)]
    jobs.append(Job("harness.pipeline", "c01_realrun", H.shards("c01_realrun"), 400,
                    bounds=dict(workload="the fixture workload of C02's realrun (recorded profile events of ~40 code objects: real bytecode, real values)",
                                rewriters=list(H.REWRITERS), flags=list(H.FLAGS), k="all integers >= 0 (symbolic)"),
                    rule="one path = (rewriter, CLI flag, class of k) over the whole recorded workload", describe=H.describe, max_samples=2, validate_limit=8))
    return run_check(PID, tier, jobs, H.FUNCTIONS, ASSUMPTIONS + [
        "c01_realrun: the call history is the one CPython really produced for the fixture workload (recorded natively in this process before the "
        "exploration), so generators delegating with `yield from`, coroutines that suspend, exception exits and every parameter kind reach the "
        "tracer with their real bytecode offsets"], pre=H2.validate_environment)
