"""C18 -- sampling thins traces without distorting them."""
from engine.runner import Job, run_check
import harness.c18 as H

PID = "C18"
ASSUMPTIONS = [
    "random.randrange is an environment stub returning an arbitrary solver integer r with 0 <= r < N per call (its documented contract); "
    "the statistical 'about one in N' follows from the exact characterisation proved here (traced iff the draw at the FIRST call event is 0) "
    "plus uniformity of random.randrange, which is trusted",
    "sample rate: None, 0, 1 and every N >= 2 (unconstrained solver integer)",
    "event script of one frame as CPython delivers it (first call, <=2 quick / <=3 thorough yield/resume pairs, final return or exception exit), "
    "with the body rebinding its parameter and creating locals between yields; environment contract as in C02 (validated there)",
    "a second harness interleaves two live frames of the SAME generator function (three interleavings), so that per-frame versus per-code "
    "bookkeeping is distinguished",
    "oracle: a trace is logged iff the call was sampled at its first call event; a logged trace has the entry argument types, all yields and "
    "the return exactly as an unsampled tracer would record; afterwards no container attribute of the tracer mentions the frame",
]


def run(tier):
    name = "sampling_quick" if tier == "quick" else "sampling_thorough"
    jobs = [Job("harness.c18", name, H.shards(name), 240 if tier == "quick" else 600,
                bounds=dict(rate="None | 0 | 1 | all N >= 2 (symbolic)", draws="4 symbolic draws", yield_resume_pairs="<=2" if tier == "quick" else "<=3",
                            functions=["gen_rebinding", "mod_func", "gen_func"], values="atoms int/str/None"),
                rule="one path = one (rate class, draw classes, script shape, value shapes)", describe=H.describe),
            Job("harness.c18", "sampling_two", H.shards("sampling_two"), 240,
                bounds=dict(frames="two live frames of the same generator function", interleavings=3, rate="None | 1 | all N >= 2 (symbolic)", draws="4 symbolic draws"),
                rule="one path = (rate class, draw classes, interleaving, value shapes)", describe=H.describe),
            Job("harness.c18", "realrun_sampled", H.shards("realrun_sampled"), 300,
                bounds=dict(workload="the recorded real workload of C02 (real code objects and bytecode offsets)", rate=[None, 1, 2, 3],
                            draws="3 draws in {0, nonzero} used cyclically: new call number i takes draw i mod 3"),
                rule="one path = (rate, draw pattern); every new call takes exactly one draw, resumptions none; the log is the reference log of the calls whose draw was 0",
                describe=H.describe, max_samples=50, validate_limit=50),
            Job("harness.c18", "abandon", H.shards("abandon"), 240,
                bounds=dict(script="generator abandoned while suspended (close delivered or not), frame object dies, a new frame (placed by an adversarial "
                                   "allocator at the dead frame's address when possible) makes a complete call", rate="None | 1 | all N >= 2 (symbolic)", draws="4 symbolic draws"),
                rule="one path = (rate class, draw classes, script, value shapes)", describe=H.describe, max_samples=10**6, validate_limit=200)]
    return run_check(PID, tier, jobs, H.FUNCTIONS, ASSUMPTIONS + [
        "abandon: no obligation is checked for the abandoned call itself (CPython reports the close of a suspended generator as return@YIELD_VALUE "
        "with None, indistinguishable from a yield); the NEW call must take exactly one sampling draw and be traced with its own values. Address "
        "reuse is searched for by allocating up to 300 frame objects; explored paths are re-executed natively"])
