"""C09 (claimed in part) -- the trace store returns exactly what was added: deduplicated, filtered, bounded."""
import json
import os
import re
import sqlite3
import time

import z3

from engine import smt
from engine.runner import Job, replay_concrete, replay_file, run_check
from engine.sqlfront import Unsupported, parse
import harness.c09 as H

PID = "C09"
ASSUMPTIONS = [
    "E2: the SQL text is obtained by calling the real make_query (with and without a prefix) and by running the real list_modules on a recording "
    "connection; it is parsed by engine/sqlfront.py (unknown constructs => exit 2, never 'holds') and compiled to z3 terms over a bounded symbolic "
    "relation of R rows; strings are printable ASCII of bounded length; the three JSON columns range over 2-3 values incl. NULL",
    "hand-written SQLite semantics (trusted, validated differentially against real SQLite on solver-generated rows each run): == is byte equality; "
    "LIKE: % any sequence, _ any one character, ASCII-only case folding, no escape; GLOB: * and ? (patterns with '[' excluded); substr/length/instr on "
    "characters; GROUP BY = one row per distinct key; ORDER BY date(created_at) has day granularity, so which rows survive LIMIT is arbitrary: LIMIT "
    "keeps an arbitrary subset of the right size (existentially quantified); LIMIT n with n >= 0 only (negative = unlimited is outside the claim)",
    "queries (negated property; unsat = holds within the bound): Q1 a returned row with module != m or qualname not starting with p; Q2 a matching "
    "distinct row missing from an untruncated result; Q3 result cardinality != min(n, d); Q4 two returned rows equal on all five columns; Q5 "
    "list_modules != the set of modules having rows (module names assumed non-empty)",
    "every sat model is replayed on a real SQLiteStore (in-memory SQLite) before it is believed; unknown => exit 2",
    "the statements the real store executes at creation (make_store on a recording connection) and in add() must be exactly CREATE TABLE IF NOT EXISTS "
    "with the six columns, CREATE INDEX IF NOT EXISTS and one INSERT ... VALUES (?,?,?,?,?,?) by executemany: re-opening a database then cannot "
    "drop or alter rows at the SQL level; any other statement (a PRAGMA changing the journal mode, DROP, DELETE ...) => exit 2 (not modelled)",
    "E1: batch atomicity at the Python level against a ModelConnection implementing the documented sqlite3 context-manager contract (commit on clean "
    "exit, rollback on exception) whose executemany raises after j rows; batches of 1..4 traces with every subset unserialisable",
    "NOT claimed (outside this technique): interleavings of 2..16 OS processes on one database file, SIGKILL / progress-handler aborts inside SQLite's "
    "VM, durability after reopening, PRAGMA integrity_check - SQLite's C code and the OS cannot be encoded; the Python-level structure that entrusts "
    "atomicity to ONE transaction is what is checked",
]


def _unescape(s):
    return re.sub(r"\\u\{([0-9a-fA-F]+)\}", lambda m: chr(int(m.group(1), 16)), s)


def e2(tier):
    t0 = time.time()
    stats = smt.Stats()
    info = {"violations": [], "sql": {}, "smt_queries": stats.queries}
    bounds = dict(rows=3, module_len=2, qualname_len=4, prefix_len=3) if tier == "quick" else dict(rows=4, module_len=2, qualname_len=5, prefix_len=3)
    info["smt_bounds"] = bounds
    try:
        sqls = H.real_sql()
        parsed = {k: parse(sql) for k, (sql, _b) in sqls.items()}
    except Unsupported as e:
        info["inconclusive"] = f"SQL outside the supported subset: {e}"
        return info
    except Exception as e:  # noqa: BLE001
        info["inconclusive"] = f"cannot obtain the SQL from the real code: {e!r}"
        return info
    info["sql"] = {k: " ".join(sql.split()) for k, (sql, _b) in sqls.items()}
    try:
        stmts, _rc = H.setup_and_write_sql()
        info["sql"]["setup_and_add"] = [f"{ph}: " + " ".join(sql.split()) for ph, sql in stmts]
        bad = H.audit_statements(stmts)
        if bad:
            info["inconclusive"] = "store set-up / write path outside the modelled SQL subset (atomicity, durability or re-opening no longer covered): " + "; ".join(bad)
            return info
    except Exception as e:  # noqa: BLE001
        info["inconclusive"] = f"cannot record the store's set-up and write statements: {e!r}"
        return info
    discharged = 0

    def report(name, enc, model, with_prefix):
        rows = [smt.model_row(model, r) for r in enc.rows]
        rows = [[_unescape(r[1]), _unescape(r[2]), r[3], r[4], r[5], r[6]] for r in rows if r[0]]
        m = _unescape(model.eval(enc.M, model_completion=True).as_string())
        p = _unescape(model.eval(enc.P, model_completion=True).as_string()) if with_prefix else None
        n = model.eval(enc.n, model_completion=True).as_long()
        import itertools

        # which rows survive a LIMIT depends on the (arbitrary) order among same-day rows: the
        # insertion order is part of the database state the model stands for -- try them all
        verdict = detail = None
        for perm in itertools.islice(itertools.permutations(rows), 24):
            args = {"rows": [list(r) for r in perm], "m": m, "p": p, "n": n}
            path = replay_file(PID, "harness.c09.store_case", args, f"{name}: solver model")
            verdict, detail = replay_concrete(path)
            if verdict == "FAIL":
                info["violations"].append((path, f"{name} is satisfiable; replayed on a real SQLiteStore: {detail}"))
                return True
            os.unlink(path)
        info.setdefault("engine_artefacts", []).append({"query": name, "args": args, "replay": [verdict, detail]})
        return False

    for key, with_prefix in (("filter_prefix", True), ("filter_all", False)):
        q = parsed[key]
        binding = sqls[key][1]
        queries = []
        try:
            # each query gets a fresh encoding (the DP tables are per-encoding constraints)
            def fresh():
                e = smt.Encoding(bounds["rows"], bounds["module_len"], bounds["qualname_len"], bounds["prefix_len"])
                out, count = e.evaluate(q, binding)
                return e, out, count

            e, out, count = fresh()
            queries.append(("Q1 returned row violates the filter", e, z3.Or(*[z3.And(out[i], z3.Not(e.spec(e.rows[i], with_prefix))) for i in range(e.R)])))
            e, out, count = fresh()
            spec = [e.spec(r, with_prefix) for r in e.rows]
            d = z3.Sum([z3.If(z3.And(spec[i], *[z3.Not(z3.And(spec[j], e.same_on(e.rows[i], e.rows[j], smt.COLS))) for j in range(i)]), 1, 0) for i in range(e.R)])
            missing = z3.Or(*[z3.And(spec[i], z3.Not(z3.Or(*[z3.And(out[j], e.same_on(e.rows[i], e.rows[j], smt.COLS)) for j in range(e.R)]))) for i in range(e.R)])
            queries.append(("Q2 matching row missing from an untruncated result", e, z3.And(e.n >= e.R, missing)))
            e, out, count = fresh()
            spec = [e.spec(r, with_prefix) for r in e.rows]
            d = z3.Sum([z3.If(z3.And(spec[i], *[z3.Not(z3.And(spec[j], e.same_on(e.rows[i], e.rows[j], smt.COLS))) for j in range(i)]), 1, 0) for i in range(e.R)])
            queries.append(("Q3 result cardinality != min(n, d)", e, count != z3.If(e.n < d, e.n, d)))
            e, out, count = fresh()
            queries.append(("Q4 two returned rows equal on all columns", e, z3.Or(*[z3.And(out[i], out[j], e.same_on(e.rows[i], e.rows[j], smt.COLS))
                                                                                     for i in range(e.R) for j in range(i)])))
        except Unsupported as ex:
            info["inconclusive"] = f"{key}: {ex}"
            return info
        for name, enc, goal in queries:
            full = f"{key}/{name}"
            res, model, solver = smt.solve(full, enc, goal, stats, 900000)
            if res == "unsat":
                discharged += 1
                if tier == "thorough":
                    t = time.time()
                    other = smt.cvc5_check(solver.to_smt2().replace("(check-sat)", ""), 300000)
                    stats.record(full, other, time.time() - t, "cvc5")
                    if other == "sat":
                        info["inconclusive"] = f"{full}: z3 says unsat, cvc5 says sat"
            elif res == "sat":
                if not report(full, enc, model, with_prefix):
                    info["inconclusive"] = f"{full}: satisfiable in the encoding but not reproducible on real SQLite (encoding too weak?)"
            else:
                info["inconclusive"] = f"{full}: solver answered {res}"
    # Q5 list_modules
    try:
        q = parsed["list_modules"]
        e = smt.Encoding(bounds["rows"], bounds["module_len"], 1, 1)
        out, count = e.evaluate(q, {})
        if q["select"] != ["module"]:
            raise Unsupported("list_modules does not select exactly the module column")
        not_listed = z3.Or(*[z3.And(e.rows[i]["present"], z3.Not(z3.Or(*[z3.And(out[j], e.rows[j]["module"] == e.rows[i]["module"]) for j in range(e.R)]))) for i in range(e.R)])
        twice = z3.Or(*[z3.And(out[i], out[j], e.rows[i]["module"] == e.rows[j]["module"]) for i in range(e.R) for j in range(i)])
        res, model, solver = smt.solve("Q5 list_modules != set of modules with rows", e, z3.Or(not_listed, twice), stats)
        if res == "unsat":
            discharged += 1
        elif res == "sat":
            rows = [smt.model_row(model, r) for r in e.rows]
            rows = [[_unescape(r[1]), _unescape(r[2]), r[3], r[4], r[5]] for r in rows if r[0]]
            args = {"rows": rows, "m": rows[0][0] if rows else "m", "p": None, "n": 10}
            path = replay_file(PID, "harness.c09.store_case", args, "Q5 model")
            verdict, detail = replay_concrete(path)
            if verdict == "FAIL":
                info["violations"].append((path, f"Q5 satisfiable; on a real store: {detail}"))
            else:
                info["inconclusive"] = "Q5 satisfiable in the encoding but not reproducible"
        else:
            info["inconclusive"] = f"Q5: solver answered {res}"
    except Unsupported as ex:
        info["inconclusive"] = f"list_modules: {ex}"
    # differential validation of the hand-written SQLite model
    try:
        v = validate_selection(sqls, parsed, bounds, stats)
        info.update(v)
    except Exception as ex:  # noqa: BLE001
        info["inconclusive"] = f"model validation failed to run: {ex!r}"
    info["smt_obligations"] = 9
    info["smt_discharged_unsat"] = discharged
    info["_solver_queries"] = len(stats.queries)
    info["_solver_seconds"] = round(sum(q["seconds"] for q in stats.queries), 2)
    info["_states"] = discharged
    info["_transitions"] = len(stats.queries)
    info["smt_wall_s"] = round(time.time() - t0, 2)
    return info


def validate_selection(sqls, parsed, bounds, stats):
    """The hand-written SQLite semantics is validated differentially: (row, m, p) tuples -- a few
    solver models of 'selected' / 'not selected' plus every string over a small alphabet of letters
    in both cases and the LIKE/GLOB wildcard characters -- are pushed through real SQLite (the real
    query text on a one-row table) and through the encoding (by substitution); they must agree."""
    import itertools

    sql, binding = sqls["filter_prefix"]
    q = parsed["filter_prefix"]
    e = smt.Encoding(1, bounds["module_len"], bounds["qualname_len"], bounds["prefix_len"])
    n_before = len(e.constraints)
    out1, _count = e.evaluate(q, binding)
    sel = out1[0]
    aux = e.constraints[n_before:]  # LIMIT introduces auxiliary 'kept' variables
    cases = []
    for polarity in (True, False):
        s = z3.Solver()
        s.set("timeout", 20000)
        s.add(*e.constraints)
        s.add(e.rows[0]["present"], e.n == 10, sel if polarity else z3.Not(sel))
        for k in range(4):
            t = time.time()
            r = s.check()
            stats.record("validation model", r, time.time() - t)
            if str(r) != "sat":
                break
            m = s.model()
            vals = [_unescape(m.eval(x, model_completion=True).as_string()) for x in (e.rows[0]["module"], e.rows[0]["qualname"], e.M, e.P)]
            cases.append(tuple(vals))
            s.add(z3.Or(e.P != z3.StringVal(vals[3]), e.rows[0]["qualname"] != z3.StringVal(vals[1])))
    alphabet = "aA%_b*?[."
    strings = [""] + ["".join(p) for n in (1, 2) for p in itertools.product(alphabet, repeat=n)]
    for P in strings:
        if len(P) > bounds["prefix_len"]:
            continue
        for qn in strings + ["aAb", "a%b", "Ab_"]:
            for mod, M in (("m", "m"), ("m", "M")):
                cases.append((mod, qn, M, P))
    if aux:
        cases = cases[::12]  # every case then needs a (small) solver call
    checked, disagreements = 0, []
    conn = sqlite3.connect(":memory:")
    H.create_call_trace_table(conn)
    for mod, qn, M, P in cases:
        conn.execute(f"DELETE FROM {H.DEFAULT_TABLE}")
        conn.execute(f"INSERT INTO {H.DEFAULT_TABLE} VALUES ('2020-01-01', ?, ?, '{{}}', NULL, NULL)", (mod, qn))
        real_sql, values = H.make_query(H.DEFAULT_TABLE, M, P, 10)
        real = len(conn.execute(real_sql, values).fetchall()) == 1
        subst = [(e.rows[0]["module"], z3.StringVal(mod)), (e.rows[0]["qualname"], z3.StringVal(qn)), (e.M, z3.StringVal(M)), (e.P, z3.StringVal(P)),
                 (e.n, z3.IntVal(10)), (e.rows[0]["present"], z3.BoolVal(True))]
        val = z3.simplify(z3.substitute(sel, *subst))
        if not aux and (z3.is_true(val) or z3.is_false(val)):
            enc = z3.is_true(val)
        else:
            sv = z3.Solver()
            sv.add(*[z3.substitute(c, *subst) for c in aux])
            sv.add(val)
            enc = str(sv.check()) == "sat"
        checked += 1
        if real != enc and not ("[" in P and any(c["op"] == "glob" for c in q["where"])):
            disagreements.append({"module": mod, "qualname": qn, "m": M, "p": P, "sqlite_selects": real, "encoding_selects": enc})
    conn.close()
    out = {"sqlite_model_validation_cases": checked, "sqlite_model_validation_disagreements": disagreements[:5]}
    if disagreements:
        out["inconclusive"] = f"the SQLite semantics model disagrees with real SQLite on {len(disagreements)} rows, e.g. {disagreements[0]}"
    elif checked < 100:
        out["inconclusive"] = f"model validation produced only {checked} cases"
    return out


def run(tier):
    big = "atomic_big_quick" if tier == "quick" else "atomic_big"
    jobs = [Job("harness.c09", big, H.big_shards(big), 300 if tier == "quick" else 1800,
                bounds=dict(batch_sizes=[600] if tier == "quick" else list(H.BIG_SIZES), fault_positions=[500, None] if tier == "quick" else list(H.BIG_FAULTS),
                            unserialisable=["none", "first", "last"]),
                rule="one path = (batch size, fault position, unserialisable trace position); the whole batch must be one transaction", describe=H.describe),
            Job("harness.c09", "atomic", H.atomic_shards(), 240, bounds=dict(batch="1..4 traces", unserialisable="every subset", fault_position="0..n or none",
                                                                         exception_classes=[e.__name__ for e in H.EXC], via=["SQLiteStore.add", "CallTraceStoreLogger.flush"]),
                rule="one path = (batch size, unserialisable subset, fault position, exception class, entry point)", describe=H.describe)][::-1]
    jobs.append(Job("harness.c09", "atomic_rich_quick" if tier == "quick" else "atomic_rich", H.rich_shards(tier == "quick"), 300,
                    bounds=dict(batch="2 traces" if tier == "quick" else "2..3 traces", per_trace=["serialisable | unserialisable function | unencodable argument type", "shared function | own function",
                                                                "identical | differs only in yield type | only in return type | only in argument type"], fault=["none", "after 1 row"]),
                    rule="one path = (per-trace kinds, shared functions, differing column, fault); every DISTINCT serialisable trace is committed, or none", describe=H.describe))
    return run_check(PID, tier, jobs, H.FUNCTIONS, ASSUMPTIONS, pre=lambda: e2_in_subprocess(tier))


def e2_in_subprocess(tier):
    """z3 is used directly here (timers, threads): keep it out of the process that later forks the
    symbolic-execution workers."""
    import subprocess
    import sys

    p = subprocess.run([sys.executable, "-m", "checks.c09", "--e2", tier], capture_output=True, text=True, timeout=7200,
                       cwd=os.path.dirname(os.path.dirname(os.path.abspath(__file__))))
    lines = [ln for ln in p.stdout.splitlines() if ln.startswith("E2JSON ")]
    if not lines:
        return {"inconclusive": "E2 subprocess produced no result: " + (p.stdout + p.stderr)[-800:]}
    info = json.loads(lines[-1][len("E2JSON "):])
    info["violations"] = [tuple(v) for v in info.get("violations", [])]
    return info


if __name__ == "__main__":
    import sys

    if len(sys.argv) >= 3 and sys.argv[1] == "--e2":
        print("E2JSON " + json.dumps(e2(sys.argv[2]), default=repr))
