"""C13 -- existing source annotations are kept, omitted or overridden exactly as requested."""
from engine.runner import Job, run_check
import harness.c13 as H

PID = "C13"
ASSUMPTIONS = [
    "the per-position table is written from the property text: annotated+REPLICATE => the source annotation (Optional[...] of it when the default "
    "is None); annotated+OMIT => no annotation; annotated+IGNORE+traced => the traced type; unannotated+traced => the traced type in every mode; "
    "neither annotated nor traced => no annotation; the receiver is never annotated; return: R / Iterator[Y] / Generator[Y, None, R] / "
    "Iterator[Y] for yield+None return / nothing for an exception-only trace. Positions the property does not speak about (annotated, "
    "untraced, IGNORE) are not judged",
    "fixture functions: class, generic, Optional, string, NewType and Any annotations, annotated and unannotated None defaults, a method, keyword-only "
    "parameters; traced subset = one solver decision per parameter; traced types from a small alphabet",
    "CLI path: cli.main(argv) with every flag combination of the stub command, compared with the stub built directly with the strategy / rewriter the flags name",
    "the stub is evaluated by harness/stubeval.py with the source module's namespace available (self-containedness is C11's subject, not C13's)",
]


def run(tier):
    name = "annot_quick" if tier == "quick" else "annot_thorough"
    jobs = [Job("harness.c13", name, H.shards(name, 3 if tier == "quick" else 4), 500 if tier == "quick" else 600,
                bounds=dict(strategies=[s.name for s in H.STRATEGIES], functions=[f.__qualname__ for f in H.FUNCS], shapes=list(H.SHAPES),
                            traced_types=3 if tier == "quick" else 5),
                rule="one path = (strategy, function, traced subset, traced types, return/yield shape)", describe=H.describe),
            Job("harness.c13", "cli_flags", H.shards("cli_flags"), 240, bounds=dict(flags=[list(f) for f in H.CLI_FLAGS], functions=4, traces="2..7 (crosses RewriteLargeUnion's limit)"),
                rule="one path = (CLI flags, function, number of traces); cli.main must produce the stub of the strategy / rewriter the flags name", describe=H.describe)]
    return run_check(PID, tier, jobs, H.FUNCTIONS, ASSUMPTIONS)
