"""C17 (claimed in part) -- only code the filter admits, outside __main__, is ever recorded."""
from engine.runner import Job, run_check
import harness.c17 as H
import harness.c02 as H2

PID = "C17"
ASSUMPTIONS = [
    "twinfiles: the same source text loaded from a library file and from a user file (real code objects made with code.replace(co_filename=...): equal by "
    "value, as CPython's code comparison ignores co_filename); the shipped default_code_filter is called with its own memoisation, starting from empty memo tables",
    "custom filter: its verdict is a symbolic bool; rejected code must leave the tracer state and the log untouched, accepted code behaves as "
    "the C02 transition (the C02 step harness with the filter verdict decoded from the tape is re-run here)",
    "__main__ exclusion: func.__module__ is a symbolic str (length <= 9) flowing through the real CallTraceStoreLogger.log/flush",
    "default filter: file names are composed from a finite alphabet: each resolved LIB_PATHS entry, its parent, a sibling whose name textually "
    "extends a root ('<root>-extra'), directories outside, 0..2 components, synthetic names ('', '<string>', '<frozen ...>', '<stdin>'); "
    "MONKEYTYPE_TRACE_MODULES unset / empty / 1..2 (quick) or ..3 (thorough) names; oracle = independent string-based path predicate",
    "a real symbolic link to the first library root is created under the system temp directory: code reached through it must be treated as "
    "library code (Path.resolve runs for real); other symlink layouts are outside the claim; so are memo staleness when the environment variable changes within a process, enumeration of every installed code object, `monkeytype run` of scripts",
]


def run(tier):
    dn = "deffilter_quick" if tier == "quick" else "deffilter_thorough"
    sn = "step_quick" if tier == "quick" else "step_thorough"
    jobs = [
        Job("harness.c17", "gate", [{}], 60, bounds=dict(verdicts="two independent bools for two code objects sharing file and function name", with_filter="bool", co_name=["<real>", "trace_types"], order="both",
                                                         recycled="the first code object dies before the second is created (adversarial allocator looks for address reuse)"),
            rule="filter verdicts x filter present x code name x function x call order x recycled", describe=H.describe, max_samples=10**6, validate_limit=10**6),
        Job("harness.c17", "mainmod", [{}], 120, bounds=dict(module_names="2 symbolic strings, length <= 9"),
            rule="string classes decided by the solver (equal to '__main__' or not)", describe=H.describe),
        Job("harness.c17", dn, H.deffilter_shards(dn), 300 if tier == "quick" else 600, bounds=dict(H.CFG[dn.split('_')[1]]),
            rule="one path = one composed file name x allow-list", describe=H.describe),
        Job("harness.c17", "twinfiles", H.twinfiles_shards(), 120, bounds=dict(files="one under a library root and one outside (each of the roots of the default-filter alphabet), same stem", source="identical: the two code "
                                                                                       "objects compare equal", calls="both orders, optionally the first file again", allow_list=["unset", "nomatch", "<the stem>"]),
            rule="one path = (library root, other root, stem, call order, third call, allow-list); the shipped filter WITH its memoisation, from a fresh copy of monkeytype.config", describe=H.describe),
        Job("harness.c02", sn, H2.step_shards(sn), 240 if tier == "quick" else 600, bounds=dict(see="C02 step harness; filter verdict decoded from the tape"),
            rule="C02 transition with the custom filter verdict symbolic", describe=H2.describe),
    ]
    return run_check(PID, tier, jobs, H.FUNCTIONS + H2.FUNCTIONS[:3], ASSUMPTIONS, pre=H2.validate_environment)
