"""C10 -- stale or undecodable stored traces are skipped, never fatal."""
from engine.runner import Job, run_check
import harness.c10 as H

PID = "C10"
ASSUMPTIONS = [
    "row kinds: valid rows of a module function, a method and a generator, a row naming a parameter that no longer exists (decodable by design), "
    "and 14 stale kinds: module / submodule / function / method removed, function now a class / a non-callable / a settable property, "
    "argument / return / yield class removed, element class removed inside a generic, class name bound to a non-type or to a function, "
    "function defined in a local scope",
    "every sequence of 3 (quick) / 4 (thorough) kinds x -v on/off through cli.print_stub_handler, and every sequence of 2 (quick) / 3 (thorough) "
    "through cli.main(argv) with a config object; rows are served by an in-memory CallTraceStore",
    "oracle: exit status 0, stdout equal to the stdout for the decodable subsequence alone, stderr reports exactly the number skipped (one "
    "WARNING each with -v), and the 'No traces found' message iff nothing is decodable",
    "finite selectors: exhausting the path tree equals complete enumeration of the bounded sequence space (the solver decides feasibility of "
    "each branch of builder x real code x oracle)",
    "outside the claim: the `apply` file rewrite (libcst; see C15)",
]


def run(tier):
    q = tier == "quick"
    specs = [("stale_full3", 600, 2), ("stale_main2", 400, 1)] if q else [("stale_full3", 300, 2), ("stale_main2", 300, 1), ("stale_full4", 900, 3)]
    jobs = [Job("harness.c10", n, H.shards(n, pre), b, bounds=dict(kinds=[k[0] for k in H.KINDS], rows=H._CFG[n][0], verbose="bool"),
                rule="one path = (sequence of row kinds, -v)", describe=H.describe) for n, b, pre in specs]
    jobs.append(Job("harness.c10", "apply_nothing", H.shards("apply_nothing"), 300,
                    bounds=dict(command="cli.main([... 'apply', module])", rows="1..2 stale rows (every stale kind)", module=["vfix.funcs (exists)", "vfix.gone (removed)"], verbose="bool"),
                    rule="one path = (stale row kinds, target module, -v): apply with nothing decodable", describe=H.describe))
    return run_check(PID, tier, jobs, H.FUNCTIONS + ["monkeytype.cli.apply_stub_handler (when nothing decodes)"], ASSUMPTIONS + [
        "apply is only exercised when NO row decodes (so that the fixture source file is never rewritten); the file's text is compared before and after"])
