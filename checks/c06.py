"""C06 -- the TypedDict size limit is honoured end to end; zero disables TypedDicts."""
from engine.runner import run_check
import harness.c04 as H
from checks.c04 import jobs

PID = "C06"
ASSUMPTIONS = [
    "type level: every node of every per-value type and of the merged type is walked; k == 0 => no anonymous TypedDict; k > 0 => "
    "len(required)+len(optional) <= k, never an empty TypedDict, a TypedDict alternative only describes non-empty dicts whose keys are all strings",
    "k >= 0 is an unconstrained solver integer through inference and merging",
    "value grammar as C04 (dict sizes per grammar bound)",
]


def run(tier):
    js = jobs(tier, "tdlimit")
    return run_check(PID, tier, js, H.FUNCTIONS, ASSUMPTIONS)
