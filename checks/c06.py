"""C06 -- the TypedDict size limit is honoured end to end; zero disables TypedDicts."""
from engine.runner import run_check
import harness.c04 as H
from checks.c04 import jobs

PID = "C06"
ASSUMPTIONS = [
    "type level: every node of every per-value type and of the merged type is walked; k == 0 => no anonymous TypedDict; k > 0 => "
    "len(required)+len(optional) <= k, never an empty TypedDict, a TypedDict alternative only describes non-empty dicts whose keys are all strings",
    "k >= 0 is an unconstrained solver integer through inference and merging",
    "value grammar as C04 (dict sizes per grammar bound)",
]


def run(tier):
    import harness.pipeline as P
    from engine.runner import Job

    js = jobs(tier, "tdlimit")

    def J(name, budget, prefix):
        _b, g, n, full = P._CFG[name]
        return Job("harness.pipeline", name, P.shards(name, prefix), budget, bounds=dict(values=g.describe(), calls=n, k="all integers >= 0 (symbolic)"),
                   rule="pipeline level: one path = (configuration, call history shapes, k class)", describe=P.describe)
    js.append(Job("harness.pipeline", "c06_two_funcs", P.shards("c06_two_funcs", 5), 200, bounds=dict(functions=2, dict_keys="subsets of {a,b,c,d} with <= 2 keys", k="symbolic"),
                  rule="module stub of two functions sharing a parameter name: one path = (two dict shapes, rewriter, row order, k class)", describe=P.describe))
    js += [J("c06_quick", 600, 5), J("c06_nestedx", 300, 6), J("c06_gen2", 120, 4)] if tier == "quick" else [J("c06_gen2", 100, 4), J("c06_quick", 200, 5), J("c06_nestedx", 150, 6), J("c06_nested", 300, 7), J("c06_dicts", 300, 5), J("c06_thorough", 300, 5)]
    return run_check(PID, tier, js, H.FUNCTIONS + P.FUNCTIONS, ASSUMPTIONS + [
        "pipeline level: the same symbolic k configures the tracer and stub generation; stored rows (JSON crossing a real in-memory SQLite) and the "
        "rendered stub are inspected: k == 0 => no TypedDict in any row or in the stub; k > 0 => every generated class has <= k fields counting "
        "inherited ones, none is empty, TypedDict annotations only where every matching observed dict had string keys"])
