"""C07 -- shipped rewriters never narrow, never crash, and fire only on their trigger."""
from engine.runner import Job, run_check
import harness.c07 as H

PID = "C07"
ASSUMPTIONS = [
    "types are decoded from symbolic tapes: (a) unions whose member set is an arbitrary subset of a member alphabet (plain classes with single "
    "and multiple inheritance, NoneType, empty and non-empty List/Dict/Set, Tuple[()], homogeneous tuples, Iterator[Any], Type, Callable), "
    "bare or inside List / Dict value / TypedDict field / Generator yield / Optional / Tuple element positions; (b) the recursive type grammar "
    "of harness/types.py (thorough, time-bounded); (c) types inferred by the real get_type/shrink_types from pairs of grammar values, whose "
    "witness values must still be members after rewriting",
    "RewriteLargeUnion.max_union_len is an unconstrained solver integer (covers n in {2,5} and every other n); DEFAULT_REWRITER uses its own n=5",
    "oracle 'admits': structural subtyping on MonkeyType's type grammar, reading C[Any] as MonkeyType's encoding of an *empty* container "
    "(so dropping List[Any] next to List[int] is not narrowing, dropping it next to a class is)",
    "trigger predicates are written from the property text: empty container next to a non-empty one of the same kind; more members than n; "
    "all members Dict with one key type; all members plain classes; Generator with None send and return types. No trigger anywhere in the "
    "type => the result must be structurally equal to the input (up to union order)",
    "ChainedRewriter over all ordered pairs of shipped rewriters on the subset-union grammar",
    "stream: ONE rewriter instance (DEFAULT_REWRITER itself, one RewriteLargeUnion(5), one RewriteMostSpecificCommonBase) rewrites 60-200 unions "
    "that nobody keeps alive; builtins.id seen by the monkeytype modules follows engine/envmodel.py AdversarialId (unique among live objects, a dead "
    "object's number is handed to the next object): any id a real allocator may produce for non-overlapping lifetimes is produced at once",
]


def run(tier):
    def J(name, budget, prefix=3, rule=""):
        kind, g, pairs = H.REG[name]
        b = g.describe() if hasattr(g, "describe") else {"member_alphabet": [m for m, _ in H.ALPHABETS[g[2] if len(g) > 2 else "MEMBERS"][: g[0]]], "positions": list(g[1]) if len(g) > 1 else "all",
                                                                "member_order": "alphabet order and reversed" if len(g) > 3 and g[3] else "alphabet order"}
        return Job("harness.c07", name, H.shards(name, prefix), budget,
                   bounds=dict(grammar=b, rewriters=list(H.SINGLE), ordered_pairs=pairs, max_union_len="all integers (symbolic)"),
                   rule=rule or "one path = one (rewriter, type shape, class of n)", describe=H.describe)
    if tier == "quick":
        jobs = [J("types_sub11", 600, 4), J("inferred_tiny", 200, 3, "one path = one (rewriter, pair of value shapes, k class, n class)"),
                J("types_sub8_pairs", 400, 4, "one path = one (ordered rewriter pair, union member subset, n class)"),
                J("types_mix9", 300, 4, "one path = one (rewriter, member subset of the near-miss alphabet, member order, n class)"),
                J("types_nest8", 200, 4, "one path = one (rewriter, member subset of the nested-union alphabet, member order, n class)"),
                J("types_td7", 200, 4, "one path = one (rewriter, member subset of the TypedDict alphabet, position, member order, n class)"),
                J("types_nest4_pairs", 300, 5, "one path = one (ordered rewriter pair, member subset of the nested-union alphabet, member order, n class)")]
    else:
        jobs = [J("types_sub11", 200, 4), J("inferred_tiny", 100, 3), J("types_sub8_pairs", 150, 4),
                J("types_sub14", 400, 5), J("types_sub17", 400, 6), J("types_sub10_pairs", 400, 5),
                J("inferred_small", 400, 3), J("types_mix9", 100, 4), J("types_mix13", 400, 5), J("types_nest8", 100, 4), J("types_td7", 100, 4), J("types_nest8_pairs", 300, 5), J("types_quick", 300, 3), J("types_deep", 300, 3), J("types_union", 300, 3)]
    from engine.runner import Job as _Job

    jobs.append(_Job("harness.c07", "stream", H.shards("stream"), 200, bounds=dict(stream="60 uncached or 200 typing-cached unions of 6 (or 3) members out of 16 classes (two families of 8 and 6 plus int, str; alternating: all of family R, all of family Q, mixed), none kept alive; id() follows the adversarial model of engine/envmodel.py (a dead object's id goes to the next object)",
                                                                                  rewriter=["DEFAULT_REWRITER (the singleton)", "one RewriteLargeUnion(5)", "one RewriteMostSpecificCommonBase"]),
                     rule="one path = (long-lived rewriter, union size): a stream through ONE rewriter instance", describe=H.describe))
    return run_check(PID, tier, jobs, H.FUNCTIONS, ASSUMPTIONS)
