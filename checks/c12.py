"""C12 -- stubs are valid Python and mirror the traced functions' real signatures."""
from engine.runner import Job, run_check
import harness.c12 as H

PID = "C12"
ASSUMPTIONS = [
    "sigrender: signatures are valid by construction (counts per parameter kind, index where positional defaults start, None and non-None "
    "defaults, short / 64-character names, annotations on the first parameter of each kind and on the return); render_signature's max_line_len "
    "is an UNCONSTRAINED solver integer (plus the None case) with prefix '' or four spaces, so both branches of the wrapping test are taken for "
    "every signature and the claim covers every width, not only 120; oracle: the text parses, ast.arguments equals the signature (names, kinds, "
    "order, '/' and '*' placement, which parameters have defaults), annotation presence is preserved, wrapped <=> the one-line form does not fit",
    "modstub: the traced subset of the fixture module's functions is a vector of solver bits (module function, all parameter kinds, instance / "
    "class / static method, property, coroutine function, generator, async method, inherited method, methods of classes nested one and two "
    "levels deep); oracle: the stub parses, contains exactly the traced functions once each inside their (nested) classes, decorator and "
    "async match the real kind, the parameter list mirrors inspect.signature, the receiver is never annotated, every traced named parameter is",
    "FunctionStub.render's own 120-column rule is exercised through the long-name class in modstub/sigrender prefix mode",
]


def run(tier):
    q = tier == "quick"
    sn, mn = ("sigrender_quick", "modstub_quick") if q else ("sigrender_thorough", "modstub_thorough")
    jobs = [
        Job("harness.c12", sn, H.shards(sn, 4 if q else 6), 600 if q else 700,
            bounds=dict(per_kind_max=1 if q else 2, annotations=len(H.ANNOS_Q if q else H.ANNOS), max_line_len="None | all integers (symbolic)", prefix=["", "    "]),
            rule="one path = (signature shape, width class, prefix)", describe=H.describe),
        Job("harness.c12", mn, H.shards(mn, 4 if q else 8), 500 if q else 700,
            bounds=dict(functions=[f.__qualname__ for f in (H.QUICK_FUNCS if q else H.MOD_FUNCS)], subsets="all non-empty subsets (symbolic bits)"),
            rule="one path = one traced subset", describe=H.describe),
        Job("harness.c12", "genmod_quick" if q else "genmod", H.shards("genmod_quick" if q else "genmod", 3), 500 if q else 900,
            bounds=dict(kinds=list(H.GEN_KINDS), signature="0..1 parameter of each kind, defaults None/1 from a tape-chosen index, *args, **kwargs, short/long names",
                        second_function=list(H.OTHER_Q if q else H.OTHER), traced="the generated function alone or both", module="regenerated under one name on every path"),
            rule="one path = (function kind, signature shape, second function, traced subset): REAL functions are generated from the tape", describe=H.describe),
    ]
    return run_check(PID, tier, jobs, H.FUNCTIONS, ASSUMPTIONS + [
        "genmod: a module `vfix_gen` is generated (exec of tape-composed source) on every path, replacing the previous generation in sys.modules; "
        "the stub must mirror inspect.signature and the class-body kind of the functions of THIS generation (whatever MonkeyType memoises "
        "per module/qualname must not survive a regeneration)"])
