"""C11 -- rendered annotations denote the inferred type and stubs are self-contained."""
from engine.runner import Job, run_check
import harness.c11 as H

PID = "C11"
ASSUMPTIONS = [
    "(A) name-collision kernel, enumerated-names mode: two solver-chosen indices select module names from ALL dotted identifiers over {a,b,.} of "
    "length <= 3 (18 names; thorough: <= 4, 66 names) so that every textual overlap (prefix, suffix, infix, dotted sub-package) is covered; classes are "
    "created with cls.__module__ set to those names, placed top-level / nested / named like the last segment of their module, and used bare or "
    "inside List / Optional / Dict; the real build_module_stubs(...).render() output is compared with the independently composed text and every "
    "class must be imported by the root of its qualname from its own module. Same-rooted classes from one module are assumed away (no import "
    "scheme could distinguish them)",
    "(B) translation validation: a grammar type (incl. nested optional-key TypedDicts, Tuple[()], Tuple[T, ...], Type[C], Callable, Iterator, "
    "Generator, DefaultDict, classes from vfix.utils / vfix.pkg.utils (dotted suffix names), nested classes one to three levels deep, a class "
    "named like its module, _io.StringIO, classes of the target module) is placed at a parameter / None-defaulted parameter / return / yield / "
    "yield+return / method parameter / TypedDict-field position, bare or inside ten container contexts; the module stub rendered by the real "
    "code is parsed by the reference evaluator (harness/stubeval.py) using ONLY names the stub provides plus builtins and the target module's own "
    "classes, and the evaluated annotation must be structurally equal (up to union order) to the type",
    "fully symbolic module-name strings were probed in the design round (tree not exhaustible: every find/slice position forks) and are not used",
    "classes with the same name imported from two modules are outside the claim (the from-import scheme cannot express them)",
]


def run(tier):
    def J(name, budget, prefix, rule, bounds):
        return Job("harness.c11", name, H.shards(name, prefix), budget, bounds=bounds, rule=rule, describe=H.describe)
    if tier == "quick":
        jobs = [J("collide3q", 600, 1, "one path = (module name pair, placements, contexts)", dict(module_names=H.NAMES3, placements=H.PLACEMENTS, contexts=["bare", "List"])),
                J("tv_quick", 600, 4, "one path = (position, container context, type shape)", dict(grammar=H.TG_STUB1.describe(), positions=H.Q_POS, contexts=H.Q_CTX,
                                                                                            extra_classes=[c.__module__ + "." + c.__qualname__ for c in H.EXTRA_CLASSES]))]
    else:
        jobs = [J("collide3", 400, 1, "one path = (module name pair, placements, contexts)", dict(module_names=H.NAMES3, placements=H.PLACEMENTS, contexts=H.CONTEXTS)),
                J("collide4", 600, 1, "one path = (module name pair, placements, contexts)", dict(module_names="all %d dotted identifiers over {a,b,.} of length <= 4" % len(H.NAMES4))),
                J("tv_full1", 400, 4, "one path = (position, container context, type shape)", dict(grammar=H.TG_STUB1.describe(), positions=H.POSITIONS, contexts=H.HOST_CONTAINERS)),
                J("tv_deep", 400, 5, "one path = (position, container context, type shape)", dict(grammar=H.TG_STUB.describe(), positions=H.POSITIONS, contexts=H.HOST_CONTAINERS))]
    return run_check(PID, tier, jobs, H.FUNCTIONS, ASSUMPTIONS, level_if_exhausted="translation_validation" if False else "model_checking")
