"""C16 (claimed in part) -- --pep_563 confines only annotation-only imports and keeps the module importable."""
from engine.runner import Job, run_check
import harness.c16 as H

PID = "C16"
ASSUMPTIONS = [
    "CLAIMED: the behaviour of MonkeyType's own RemoveImportsTransformer / MoveImportsToTypeCheckingBlockVisitor / get_newly_imported_items on modules "
    "libcst has already parsed. libcst's parser and ApplyTypeAnnotationsVisitor run natively as preparation (outside the engine: ~150 s per path under "
    "it, nothing symbolic survives the parser); NOT claimed: libcst's own insertion of annotations, exhaustiveness over source programs",
    "remove_kernel: the ImportItems to move carry SYMBOLIC module / object strings (non-empty, <= 8 / <= 4 characters) and optional alias, constrained only "
    "as get_newly_imported_items guarantees (not an import the source already has); sources: plain import, aliased from-import, multi-name from-import, "
    "dotted aliased import, docstring + __future__ import, import inside a function, existing TYPE_CHECKING block, star import, no imports, existing "
    "typing import; oracle: every import statement of the source survives",
    "confine: (source shape, stub) pairs chosen by a selector; stubs import a new user class, typing names, another name from an already imported module, "
    "the un-aliased form of an aliased import, mypy_extensions.TypedDict with a generated class, names the source already imports; the real "
    "transform_module runs under the engine on the natively annotated tree; oracle on the result text: valid Python starting with the __future__ import, "
    "every source import still present at its place, new non-typing imports under `if TYPE_CHECKING:`, typing and the TypedDict base class imported at "
    "runtime, the module executes and f(1) runs with fixture modules on the path (finite selectors: complete enumeration of the bound; ~10 s per path)",
]


def run(tier):
    q = tier == "quick"
    specs = [("remove_kernel1", 500), ("confine_quick", 1200)] if q else [("remove_kernel1", 300), ("remove_kernel2q", 300), ("remove_kernel", 600), ("confine_all", 900)]
    jobs = [Job("harness.c16", n, H.shards(n), b, per_path_timeout=300.0, twin_budget=300.0,
                bounds=dict(harness=n, sources=list(H.SRC_NAMES), stubs=list(H.STUB_NAMES)),
                rule="one path = (source shape, item kinds, string classes)" if n.startswith("remove") else "one path = one (source shape, stub) pair", describe=H.describe)
            for n, b in specs]
    return run_check(PID, tier, jobs, H.FUNCTIONS, ASSUMPTIONS)
