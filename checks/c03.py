"""C03 (claimed in part) -- tracing never changes what the program does: fault containment and
the trace_calls exit protocol."""
from engine.runner import Job, run_check
import harness.c03 as H

PID = "C03"
ASSUMPTIONS = [
    "CLAIMED clauses only: (b) a failure inside type collection, function lookup or the logger never reaches the traced program; "
    "(c) on exit from the tracing context, normally or by exception, the previous profiler is back, the logger was flushed exactly once, "
    "and the profiler is restored before the flush",
    "NOT claimed (outside this technique here): 'same results with and without tracing' (a whole-program differential over two interpreter "
    "runs) and 'the tracer never executes user-defined code' (the observation is which dunder hooks CPython's C builtins invoke; the symbolic "
    "engine replaces exactly those builtins by Python models, so it cannot observe it)",
    "fault sites are symbolic booleans: get_type on an argument, get_type on the return/yield value, function lookup, logger.log, plus "
    "argument / return objects whose own inspection raises (a __class__ property that raises); exception classes Exception, ValueError, "
    "RecursionError, AttributeError, KeyError, TypeError; all single, double and higher combinations; BaseException-only faults and a raising "
    "code filter are not in the property's list and are not injected",
    "monkeytype.tracing.sys is replaced by a FakeSys object (the engine's own tracer must not be displaced by a real sys.setprofile); "
    "monkeytype.trace(config) is checked to thread logger, filter, sample rate and max_typed_dict_size (symbolic ints) to the tracer",
]


def run(tier):
    jobs = [
        Job("harness.c03", "contain", [{"t0": i} for i in range(len(H.EXC))], 300,
            bounds=dict(fault_sites=6, exception_classes=[e.__name__ for e in H.EXC], scripts=["call", "call+return", "call+yield+call+return"]),
            rule="one path = one fault schedule x exception class x event script", describe=H.describe),
        Job("harness.c03", "context", [{}], 120,
            bounds=dict(body_raises="bool", flush_raises="bool", previous_profiler="bool", via="trace_calls | monkeytype.trace(config)", k="symbolic int", rate="symbolic int"),
            rule="one path = one exit scenario of the tracing context", describe=H.describe),
    ]
    return run_check(PID, tier, jobs, H.FUNCTIONS, ASSUMPTIONS, level_if_exhausted="fault_enumeration")
