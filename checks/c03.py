"""C03 (claimed in part) -- tracing never changes what the program does: fault containment and
the trace_calls exit protocol."""
from engine.runner import Job, run_check
import harness.c03 as H

PID = "C03"
ASSUMPTIONS = [
    "CLAIMED clauses only: (b) a failure inside type collection, function lookup or the logger never reaches the traced program; "
    "(c) on exit from the tracing context, normally or by exception, the previous profiler is back, the logger was flushed exactly once, "
    "and the profiler is restored before the flush",
    "(d) hook freedom: the tracer (CallTracer.__call__, handle_call/handle_return, get_func and its helpers, get_type) runs no user-defined code of "
    "the program's objects. Tripwire objects journal every hook; the journal must be empty. Under the engine MonkeyType's isinstance calls go "
    "through harness/tripwires.py cpython_isinstance (Objects/abstract.c object_isinstance transcribed: reads obj.__class__ when type(obj) is not a "
    "subclass), because the engine's isinstance model never reads __class__; the transcription is compared with builtins.isinstance (result and "
    "journal) on every tripwire kind x every class argument MonkeyType uses, natively, on every run. Hook calls whose nearest non-stdlib caller "
    "is the engine's own code and that are engine probes (__class__ reads, __ch_* lookups) are not counted. EVERY explored path is re-executed "
    "natively (real isinstance, no engine) and must give the same verdict",
    "hook freedom covers values reaching type collection and function lookup; hashing/equality of CLASS objects by typing.Union (metaclass "
    "__hash__/__eq__), the logger/store path, and C-level slots that no Python-level hook can observe are outside the claim",
    "NOT claimed (outside this technique here): 'same results with and without tracing' as a whole-program differential over two interpreter runs; "
    "claimed instead are the channels through which the tracer could change a program: user-defined hooks (hookfree), escaping exceptions (contain), "
    "the profiler slot and flush on every exit (context), and the process-wide random generator (rng)",
    "fault sites are symbolic booleans: get_type on an argument, get_type on the return/yield value, function lookup, logger.log, plus "
    "argument / return objects whose own inspection raises (a __class__ property that raises); exception classes Exception, ValueError, "
    "RecursionError, AttributeError, KeyError, TypeError; all single, double and higher combinations; BaseException-only faults and a raising "
    "code filter are not in the property's list and are not injected",
    "monkeytype.tracing.sys is replaced by a FakeSys object (the engine's own tracer must not be displaced by a real sys.setprofile); "
    "rng: the tracer must not draw from the process-wide generator of the `random` module (the traced program's own random numbers come from it), "
    "with or without a sample rate; a generator of the tracer's own is allowed",
    "monkeytype.trace(config) is checked to thread logger, filter, sample rate and max_typed_dict_size (symbolic ints) to the tracer",
]


def run(tier):
    jobs = [
        Job("harness.c03", "contain", [{"t0": i} for i in range(len(H.EXC))], 300,
            bounds=dict(fault_sites=6, exception_classes=[e.__name__ for e in H.EXC], scripts=["call", "call+return", "call+yield+call+return"]),
            rule="one path = one fault schedule x exception class x event script", describe=H.describe),
        Job("harness.c03", "context", [{}], 120,
            bounds=dict(body_raises="bool", flush_raises="bool", previous_profiler="bool", via="trace_calls | monkeytype.trace(config)", k="symbolic int", rate="symbolic int"),
            rule="one path = one exit scenario of the tracing context", describe=H.describe),
    ]
    jobs.append(
        Job("harness.c03", "hookfree", [{"t0": i} for i in range(len(H.TW.KINDS))], 300,
            bounds=dict(tripwire_kinds=[k for k, _ in H.TW.KINDS], positions=list(H.POSITIONS), k="symbolic int (every limit)",
                        events="call/return, call/yield/call/return, call (lookup only)"),
            rule="one path = one tripwire kind x position x class of k; the journal of user-defined hooks that ran must be empty",
            describe=H.describe, max_samples=10**6, validate_limit=10**6))
    jobs.append(
        Job("harness.c03", "rng", [{}], 60, bounds=dict(sample_rate=list(H.RNG_RATES), calls="1..3 complete calls"),
            rule="one path = (sample rate, number of calls); monkeytype.tracing's `random` module (and any function of it imported by name) is a spy: "
                 "module-level functions draw from the process-wide generator and are recorded, a generator of the tracer's own is allowed", describe=H.describe))
    return run_check(PID, tier, jobs, H.FUNCTIONS, ASSUMPTIONS, level_if_exhausted="fault_enumeration", pre=H.validate_models)
