"""C02 -- every completed call yields exactly one faithful call trace."""
from engine.runner import Job, run_check
import harness.c02 as H

PID = "C02"
ASSUMPTIONS = [
    "decided by ONE inductive step of the real CallTracer.__call__/handle_call/handle_return from an arbitrary valid tracer state "
    "(invariant: exactly one in-flight CallTrace per started-and-unfinished admitted frame, holding the entry types and the union of the "
    "yields so far); histories of any length follow by induction on the event sequence",
    "environment contract for what CPython delivers to a profile function (harness/frames.py): per frame call (return@YIELD_VALUE call)* "
    "return@final; normal return <=> last opcode in opcode.opmap['RETURN_*'] minus RETURN_GENERATOR; YIELD_VALUE in a CO_COROUTINE code "
    "object is an await suspension; anything else is an exit by exception. The contract is validated natively against the running "
    "interpreter on every run (fixture workload with its own journal); a disagreement is exit 2, not a violation",
    "the last-executed opcode is an unconstrained solver integer; coroutine flag, event kind, target frame, filter verdict, bound-parameter "
    "subset and values are symbolic/tape-decoded",
    "outside the claim: async generators (CO_ASYNC_GENERATOR: YIELD_VALUE is ambiguous there), generators finished by throw()/close() "
    "while suspended (the exit is then delivered as return@YIELD_VALUE with arg None, which no profile function can tell from a yield), "
    "C-level frames, threads, and that CPython really delivers the events (validated concretely only)",
    "get_type is used to compute the expected types (its own correctness is C04/C05)",
    "attribution: get_func is run on frames recorded from the live interpreter for every fixture function kind; the decorator-made wrapper "
    "function object may be unresolvable but must never be attributed to another function",
]


def run(tier):
    name = "step_quick" if tier == "quick" else "step_thorough"
    jobs = [
        Job("harness.c02", name, H.step_shards(name), 240 if tier == "quick" else 900,
            bounds=dict(in_flight_frames="<=1" if tier == "quick" else "<=2", prior_yields="<=1" if tier == "quick" else "<=2",
                        opcode="all integers (symbolic)", functions=[f.__qualname__ for f in H.STEP_FUNCS], events=list(H.EVENTS),
                        values="atoms int/str/None/A(), list/dict of <=1 element"),
            rule="one path = one (pre-state shape, event, target, opcode class, coroutine flag, filter verdict, value shape, k class)",
            describe=H.describe),
        Job("harness.c02", "attribution", [{}], 120, bounds=dict(frames="every call event of the fixture workload recorded from the live interpreter"),
            rule="selector over recorded real frames; get_func must return the function whose code ran", describe=H.describe),
    ]
    ncodes = len(H._distinct_codes(H.recorded_events()))
    jobs.append(
        Job("harness.c02", "realrun", [{"t0": i} for i in range(ncodes + 1)], 300,
            bounds=dict(workload="fixtures/vfix/funcs.py workload recorded from the running interpreter: %d profile events of %d code objects "
                                 "(module functions, methods of every kind, properties, closures, decorators, recursion, every parameter kind, "
                                 "generators incl. interleaved / delegating / raising, coroutines that really suspend, exits by constant, "
                                 "expression, implicit None and exception)" % (len(H.recorded_events()), ncodes),
                        filter="admits one code object (each in turn) or everything", k="symbolic int"),
            rule="one path = (code-filter choice, class of k); the real tracer consumes the recorded events (real code objects, real f_lasti)",
            describe=H.describe, max_samples=4, validate_limit=50))
    jobs.append(Job("harness.c02", "sessions", [{}], 60, bounds=dict(sessions=2, nested_functions="every recorded call of a nested function of the workload (closures, a recursive closure)"),
                    rule="one path = one recorded call of a nested function: a first CallTracer meets its code where no calling frame holds the function, a second "
                         "CallTracer gets the call as recorded; the second session must log it", describe=H.describe))
    import harness.c18 as H18
    jobs.append(Job("harness.c18", "abandon", [sh for sh in H18.shards("abandon") if sh.get("t0", 0) == 0], 200,
                    bounds=dict(script="a suspended generator is abandoned, its frame object dies, a new frame (at the dead frame's address when the "
                                       "allocator allows) makes a complete call", sampling="off"),
                    rule="one path = (script, value shapes); only the NEW call's trace is judged", describe=H18.describe, max_samples=10**6, validate_limit=200))
    return run_check(PID, tier, jobs, H.FUNCTIONS, ASSUMPTIONS + [
        "realrun: the events are those CPython really delivered for the fixture workload in this process (recorded natively before the "
        "exploration); frames are proxies carrying the recorded code object, f_lasti, f_locals snapshot, globals and caller locals"],
        pre=H.validate_environment)
