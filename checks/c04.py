"""C04 -- inferred types admit every observed value, for every TypedDict size limit."""
from engine.runner import Job, run_check
import harness.c04 as H

PID = "C04"
ORACLE = "sound"
ASSUMPTIONS = [
    "values are drawn from the stated grammar (harness/values.py); self-referential containers and values outside it are outside the claim",
    "k >= 0 (negative limits are skipped, counted as SKIP paths); k is otherwise an unconstrained solver integer, so every limit is covered, not only {0,1,2,3,10,200}",
    "reference oracle harness/oracles.py conforms()/struct_eq() (PEP 484 membership; structural comparison without ==) is trusted; it is self-tested by selftest.py",
    "CrossHair's int/bool proxies and z3 are trusted; every counterexample is re-executed in a plain interpreter before it is reported",
    "order independence is checked up to the order of union members (struct_eq with unordered unions) for all permutations of <=3 types and one duplication",
]


def jobs(tier, oracle):
    def job(gname, n, budget, prefix=3, must=False):
        name = f"{oracle}_{gname}_{n}"
        g = H.REGISTRY[name][0]
        return Job("harness.c04", name, H.shards_for(name, prefix), budget,
                   bounds=dict(grammar=g.describe(), values=n, k="all integers >= 0 (symbolic)", tape_symbols_per_value=H.tape_len(g)),
                   rule=f"{n} value(s) decoded from symbolic tape(s) over grammar '{gname}', k symbolic; one path = one tuple of value shapes x one class of k",
                   describe=H.describe, must_exhaust=must)
    if tier == "quick":
        return [job("quick", 1, 200), job("small", 2, 500), job("nested2", 2, 300, prefix=5), job("nestedx", 2, 300, prefix=5), job("eq", 2, 120, prefix=2),
                job("odd", 2, 120, prefix=1), job("nestedalt", 2, 200, prefix=5), job("cls", 2, 200, prefix=3), job("dict3", 3, 200, prefix=3)]
    return [job("eq", 2, 60, prefix=2), job("eq", 3, 200, prefix=2), job("odd", 2, 60, prefix=1), job("odd", 3, 300, prefix=1), job("nestedalt", 2, 100, prefix=5),
            job("cls", 2, 100, prefix=3), job("dict3", 3, 100, prefix=3), job("quick", 1, 60), job("small", 2, 150), job("nested2", 2, 100, prefix=5), job("nestedx", 2, 100, prefix=5),
            job("full1", 1, 200), job("deep", 1, 250, prefix=4), job("medium", 2, 300, prefix=3), job("small", 3, 250, prefix=2),
            job("nested", 2, 300, prefix=5), job("nested2", 3, 250, prefix=5), job("nested4", 2, 250, prefix=6)]


def run(tier):
    return run_check(PID, tier, jobs(tier, ORACLE), H.FUNCTIONS, ASSUMPTIONS)
