#!/usr/bin/env python3
"""Writes /verif/seeded/<name>/meta.json additions and /verif/seeded/RESULTS.md from the table below."""
import json
import os

HERE = os.path.dirname(os.path.dirname(os.path.abspath(__file__)))
# name -> (property, detected by, how, note)
R = {
    "C01-seed1": ("C01", "C01 quick (c01_nestedx); also C04 quick (sound_nestedx_2), C06 thorough (tdlimit_nested_2)", "after strengthening", "needed two-level merges (lists of str-keyed dicts) with new keys and k>=2; quick tiers had only depth-1 values at first"),
    "C01-seed2": ("C01", "C01 quick (c01_quick, generator configuration); also C09 quick (Q3) and C14 quick (store_order2)", "at once", ""),
    "C02-seed1": ("C02", "C02 quick (step_quick)", "at once", ""),
    "C02-seed2": ("C02", "C02 quick (step_quick)", "at once", ""),
    "C03-seed1": ("C03", "C03 quick (contain: double fault get_type(return)+log)", "at once", ""),
    "C03-seed2": ("C03", "C03 quick (context: body raises)", "at once", ""),
    "C04-seed1": ("C04", "C04 quick (sound_nestedx_2); C06 thorough (tdlimit_nested_2)", "after strengthening", "same mutation as C01-seed1"),
    "C04-seed2": ("C04", "C04 quick (sound_nested2_2)", "after strengthening", "needed a TypedDict with required+optional fields next to a non-dict sibling: nested grammar added"),
    "C05-seed1": ("C05", "C05 quick (tight_nested2_2)", "after strengthening", "oracle judged a TypedDict alternative only on conforming dicts; now an alternative that is the only one of its kind is judged on every observed value of that kind"),
    "C05-seed2": ("C05", "C05 quick (tight_small_2)", "at once", ""),
    "C06-seed1": ("C06", "C06 quick (tdlimit_nestedx_2, c06_nestedx)", "after strengthening", "needed second-level merges of TypedDicts carrying optional keys"),
    "C06-seed2": ("C06", "C06 quick (c06_two_funcs)", "after strengthening", "needed two functions sharing a parameter name in one module stub"),
    "C07-seed1": ("C07", "C07 quick (types_sub11, inferred_tiny)", "at once", ""),
    "C07-seed2": ("C07", "C07 quick (types_sub11, inferred_tiny)", "at once", ""),
    "C08-seed1": ("C08", "C08 quick (history replay: 6 cases in one process)", "after strengthening", "id()-keyed cache: failure depends on what was encoded and freed earlier in the process; the runner now replays failing cases as one history when a single case does not reproduce"),
    "C08-seed2": ("C08", "C08 quick (rt_trace with doubly decorated functions)", "after strengthening", "fixture had only singly decorated functions"),
    "C09-seed1": ("C09", "C09 quick (E2 Q3, replayed with row permutations)", "after strengthening", "SQL front end learned SELECT * / sub-select; LIMIT-before-GROUP BY modelled as an arbitrary subset; patch re-ported onto the LIKE fix"),
    "C09-seed2": ("C09", "C09 quick (atomic_big_quick)", "after strengthening", "needs a batch of more than 500 traces: large-batch atomicity harness added"),
    "C10-seed1": ("C10", "C10 quick (stale_full3, stale_main2)", "at once", ""),
    "C10-seed2": ("C10", "C10 quick (stale_full3)", "after strengthening", "needed a stale row resolving to a slot wrapper / method descriptor: three kinds added"),
    "C11-seed1": ("C11", "C11 quick (collide3q with the like_module_nested placement)", "after strengthening", "needed a class nested in a class named like its module; that placement also exposed a residual genuine defect (known finding C11-ambiguous-dotted-name)"),
    "C11-seed2": ("C11", "C11 quick (tv_quick)", "at once", ""),
    "C12-seed1": ("C12", "C12 quick (sigrender_quick)", "at once", ""),
    "C12-seed2": ("C12", "C12 quick (modstub_quick)", "at once", ""),
    "C13-seed1": ("C13", "C13 quick (annot_quick with annotated self/cls fixtures)", "after strengthening", "fixtures had no annotated receiver"),
    "C13-seed2": ("C13", "C13 quick (annot_quick with Union traced type / Union source annotation on a None default)", "after strengthening", "type alphabet had no None-free Union"),
    "C14-seed1": ("C14", "C14 quick (store_order2); also C09 quick (Q3)", "after strengthening", "SQL-level: a store-level order/batch harness was added to C14; patch re-ported"),
    "C14-seed2": ("C14", "C14 quick (diamond1, family 'tuples')", "after strengthening", "large-union families generalised beyond the class diamond"),
    "C16-seed1": ("C16", "C16 quick (confine_quick with a typing_-prefixed module)", "after strengthening", "stub alphabet had no module whose name starts with 'typing'; patch re-ported onto the pep_563 fixes"),
    "C16-seed2": ("C16", "C16 quick (remove_kernel1: alias ignored)", "at once", "patch re-ported onto the pep_563 fixes"),
    "C17-seed1": ("C17", "C17 quick (deffilter_quick with a real symlinked library root)", "after strengthening", "symlinks were outside the claim; one real symlink to a library root is now created at run time"),
    "C17-seed2": ("C17", "C17 quick (gate with two same-named code objects)", "after strengthening", "first detected for the wrong reason (the oracle demanded that the filter be consulted on every event, which over-demands and was removed); now two code objects sharing file and name get independent verdicts"),
    "C18-seed1": ("C18", "C18 quick (sampling_two)", "after strengthening", "needs two live frames of the same generator function"),
    "C18-seed2": ("C18", "C18 quick (sampling_quick residue check)", "at once", ""),
}

# round 2 (second building session): three changes per property, names <PID>-seed3..5
R.update({
    "C01-seed3": ("C01", "C01 quick (c01_realrun); also C02 quick (realrun)", "after strengthening", "`yield from` delegation is invisible to model frames that carry ONE opcode: the recorded real-run harnesses (real code objects, real f_lasti) were added"),
    "C01-seed4": ("C01", "C01 quick (c01_tuples); also C07 quick (types_mix9)", "after strengthening", "needs None next to tuples of one element type and several lengths, over the union limit: three-call tuple histories added"),
    "C01-seed5": ("C01", "C01 quick (c01_tuples)", "after strengthening", "value-keyed lru_cache: CrossHair skips functools.lru_cache, so the engine could not see it; the real cache is now kept under the engine, every shard runs in a fresh process, bool/int tuples added"),
    "C02-seed3": ("C02", "C02 quick (attribution; realrun with the escaping recursive closure)", "at once", ""),
    "C02-seed4": ("C02", "C02 quick (abandon); the state-injecting step harness abstains (representation guard)", "after strengthening", "id(frame)-keyed table: needs a dead frame and a new frame at its address (abandon harness with an aliasing allocator)"),
    "C02-seed5": ("C02", "C02 quick (realrun: all_kinds / star_then_kwonly)", "after strengthening", "needs *args together with keyword-only parameters on real bytecode; patch re-ported onto the hook-freedom fixes"),
    "C03-seed3": ("C03", "C03 quick (hookfree: first argument of an unresolvable function, side-effecting descriptor)", "at once", "hookfree was built in this session before the change was seen; patch re-ported"),
    "C03-seed4": ("C03", "C03 quick (context)", "at once", ""),
    "C03-seed5": ("C03", "C03 quick (hookfree: value nested two levels deep in the same container kind)", "after strengthening", "`obj in parents` compares containers with ==, which reaches the leaf's __eq__ only for same-kind same-length nestings; patch re-ported"),
    "C04-seed3": ("C04", "C04 quick (sound_nestedx_2)", "at once", ""),
    "C04-seed4": ("C04", "C04 quick (sound_eq_2)", "after strengthening", "value-keyed lru_cache on tuples: lru_cache shim + the eq grammar (1 == True == 1.0)"),
    "C04-seed5": ("C04", "C04 quick (sound_small_2)", "at once", ""),
    "C05-seed3": ("C05", "C05 quick (tight_eq_2)", "after strengthening", "as C04-seed4"),
    "C05-seed4": ("C05", "C05 quick (tight_nested2_2)", "at once", ""),
    "C05-seed5": ("C05", "C05 quick (tight_small_2)", "after strengthening", "oracle: a lone TypedDict alternative is now judged on EVERY observed dict at the position, the empty dict included"),
    "C06-seed3": ("C06", "C06 quick (tdlimit_nestedx_2)", "at once", ""),
    "C06-seed4": ("C06", "C06 quick (tdlimit_nested2_2)", "at once", ""),
    "C06-seed5": ("C06", "C06 quick (c06_two_funcs)", "at once", ""),
    "C07-seed3": ("C07", "C07 quick (types_mix9)", "after strengthening", "needs a member that itself contains a union, placed before an empty container of another kind: second alphabet + member-order bit"),
    "C07-seed4": ("C07", "C07 quick (types_mix9)", "after strengthening", "needs DefaultDict next to Dict with the DefaultDict first"),
    "C07-seed5": ("C07", "C07 quick (types_mix9)", "after strengthening", "needs Tuple[int] and Tuple[int, int] together in the quick alphabet"),
    "C08-seed3": ("C08", "C08 quick (rt_trace)", "at once", ""),
    "C08-seed4": ("C08", "C08 quick (rt_types_enc1)", "at once", ""),
    "C08-seed5": ("C08", "C08 quick (rt_types_enc1)", "at once", ""),
    "C09-seed3": ("C09", "C09 quick (E2 Q3)", "after strengthening", "SELECT DISTINCT was outside the SQL front end (the check answered exit 2); it is now read as GROUP BY the selected columns"),
    "C09-seed4": ("C09", "C09 quick (atomic)", "at once", ""),
    "C09-seed5": ("C09", "not reported as a violation: C09 quick answers exit 2 (store set-up executes `PRAGMA journal_mode = MEMORY`, outside the modelled statements)", "outside the claim", "needs SIGKILL of a writer inside a >2 MB transaction: crash points inside SQLite are outside this family; the statement audit at least refuses to say 'holds'"),
    "C10-seed3": ("C10", "C10 quick (stale_full3)", "after strengthening", "needs a removed module whose name is a textual prefix of the live module's: kind added"),
    "C10-seed4": ("C10", "C10 quick (stale_full3)", "at once", ""),
    "C10-seed5": ("C10", "C10 quick (stale_full3)", "at once", ""),
    "C11-seed3": ("C11", "C11 quick (tv_quick)", "at once", ""),
    "C11-seed4": ("C11", "C11 quick (collide3q)", "at once", ""),
    "C11-seed5": ("C11", "C11 quick (tv_quick)", "at once", ""),
    "C12-seed3": ("C12", "C12 quick (sigrender_quick; genmod_quick)", "at once", ""),
    "C12-seed4": ("C12", "C12 quick (modstub_quick; genmod_quick)", "at once", ""),
    "C12-seed5": ("C12", "C12 quick (genmod_quick, replayed as a history in one process)", "after strengthening", "lru_cache keyed by module/qualname strings: needs a module regenerated under the same name in one process; generated-module harness + lru_cache shim"),
    "C13-seed3": ("C13", "C13 quick (annot_quick)", "after strengthening", "fixtures had no annotated *args/**kwargs"),
    "C13-seed4": ("C13", "C13 quick (annot_quick)", "after strengthening", "fixtures had no string annotation on a None default"),
    "C13-seed5": ("C13", "C13 quick (annot_quick)", "after strengthening", "needs a source-annotated generator and a non-trivial rewriter: rewriter bit + fixture"),
    "C14-seed3": ("C14", "C14 quick (store_order2); also C09 quick (Q3)", "after strengthening", "needs a --limit that bites on raw rows but not on distinct ones and the duplicate row among the first rows"),
    "C14-seed4": ("C14", "C14 quick (samesig)", "after strengthening", "needs two functions whose traced signatures compare equal and mention a class of the stubbed module"),
    "C14-seed5": ("C14", "C14 quick (order2q)", "at once", ""),
    "C16-seed3": ("C16", "C16 quick (confine_quick)", "after strengthening", "needs a function-local `from m import X` of exactly the stub's import"),
    "C16-seed4": ("C16", "C16 quick (remove_kernel1)", "at once", ""),
    "C16-seed5": ("C16", "C16 quick (confine_quick)", "after strengthening", "needs a star import of a module whose __all__ does not export the name; oracle now requires every stub import to be somewhere in the result"),
    "C17-seed3": ("C17", "C17 quick (deffilter_quick)", "after strengthening", "file-level link into the standard library added"),
    "C17-seed4": ("C17", "C17 quick (deffilter_quick)", "after strengthening", "needs an allow-list entry equal to a component of the working directory"),
    "C17-seed5": ("C17", "C17 quick (gate, recycled mode)", "after strengthening", "id(code)-keyed memo: needs a dead code object and a new one at its address"),
    "C18-seed3": ("C18", "C18 quick (sampling_quick)", "at once", ""),
    "C18-seed4": ("C18", "C18 quick (abandon)", "after strengthening", "id(frame) in the unsampled set: dead frame + aliasing allocator; the new call must take exactly one draw"),
    "C18-seed5": ("C18", "C18 quick (sampling_quick residue check)", "at once", ""),
})

# round 3 (same session): three more per property, asked to be as hard to notice as possible; near-duplicates of earlier
# changes (same function, same mechanism) were dropped, 37 kept; names <PID>-seed6..
R.update({
    "C01-seed6": ("C01", "C01 quick (c01_odd)", "after strengthening", "a container made only of empty containers, ([],), next to (1,): choice grammar of odd shapes added to the pipeline"),
    "C01-seed7": ("C01", "C01 quick (c01_realrun, gen_mixed); also C02 quick (realrun)", "after strengthening", "a generator that yields [1, 2] and then 3: added to the recorded workload"),
    "C02-seed6": ("C02", "C02 quick (realrun, gen_mixed)", "after strengthening", "same change as C01-seed7"),
    "C02-seed7": ("C02", "C02 quick (realrun: three-level super() chain reached through the leaf class first)", "after strengthening", "workload extended"),
    "C02-seed8": ("C02", "C02 quick (realrun: all_kinds)", "at once", ""),
    "C03-seed6": ("C03", "C03 quick (hookfree: journaling __hash__ of a global named like the function / a caller's local)", "at once", ""),
    "C03-seed7": ("C03", "C03 quick (hookfree: bound-method export + failing logger + log formatting)", "after strengthening", "needs log() to fail AND the function resolved to a bound method AND log records really formatted"),
    "C04-seed6": ("C04", "C04 quick (sound_nestedalt_2)", "after strengthening", "needs one key carrying two value types across two-level merges"),
    "C04-seed7": ("C04", "C04 quick (sound_cls_2)", "after strengthening", "needs two different class objects in one container"),
    "C04-seed8": ("C04", "C04 quick (sound_small_2 multiplicity check; sound_dict3_3)", "at once", ""),
    "C05-seed6": ("C05", "C05 quick (tight_odd_2)", "after strengthening", "needs ONE mutable object stored at two places of a value"),
    "C05-seed7": ("C05", "C05 quick (tight_nested2_2)", "at once", ""),
    "C05-seed8": ("C05", "C05 quick (tight_small_2)", "at once", ""),
    "C06-seed6": ("C06", "C06 quick (c06_gen2)", "after strengthening", "needs ONE generator call yielding two small dicts with different keys (the stored trace is then oversize): generator2 configuration"),
    "C07-seed6": ("C07", "C07 quick (types_nest4_pairs)", "after strengthening", "two rewriters sound alone, narrowing when chained RewriteLargeUnion -> RemoveEmptyContainers: third alphabet for ordered pairs"),
    "C07-seed7": ("C07", "C07 quick (types_nest8)", "after strengthening", "needs a tuple whose element type is a subscripted generic, first among > n tuples"),
    "C08-seed6": ("C08", "C08 quick (rt_trace)", "at once", ""),
    "C08-seed7": ("C08", "C08 quick (rt_types_enc1)", "after strengthening", "needs an importable class whose metaclass is not type (Enum, ABC)"),
    "C09-seed6": ("C09", "C09 quick (atomic_big_quick)", "after strengthening", "multi-row INSERT statements were not understood by the model connection (166-row chunks, each its own transaction)"),
    "C09-seed7": ("C09", "C09 quick (atomic_rich_quick)", "after strengthening", "needs two traces of one batch that differ only in their yield type"),
    "C09-seed8": ("C09", "C09 quick (atomic_rich_quick)", "after strengthening", "needs an unserialisable trace followed by a serialisable trace of the SAME function"),
    "C10-seed6": ("C10", "C10 quick (stale_full3)", "at once", ""),
    "C10-seed7": ("C10", "C10 quick (stale_full3)", "at once", "caught through the slot-wrapper kind; functools.partial / callable-instance kinds added as well"),
    "C10-seed8": ("C10", "C10 quick (apply_nothing)", "after strengthening", "only `apply` is affected, for a removed module: apply with nothing decodable added"),
    "C11-seed6": ("C11", "C11 quick (tv_quick)", "at once", ""),
    "C11-seed7": ("C11", "C11 quick (collide3q)", "at once", ""),
    "C12-seed6": ("C12", "C12 quick (genmod_quick, async-generator kind)", "after strengthening", "kind added"),
    "C13-seed6": ("C13", "C13 quick (annot_quick)", "at once", ""),
    "C13-seed7": ("C13", "C13 quick (annot_quick)", "at once", ""),
    "C14-seed6": ("C14", "C14 quick (diamond1, family 'tuples')", "at once", ""),
    "C14-seed7": ("C14", "C14 quick (store_order2)", "at once", ""),
    "C16-seed6": ("C16", "C16 quick (confine_quick)", "after strengthening", "needs TYPE_CHECKING imported only inside a try block or a function"),
    "C17-seed6": ("C17", "C17 quick (deffilter_quick, textual sibling of a library root)", "at once", ""),
    "C17-seed7": ("C17", "C17 quick (gate: two code objects sharing file, line and name)", "at once", ""),
    "C18-seed6": ("C18", "C18 quick (sampling_quick, coroutine frame)", "after strengthening", "needs a coroutine whose suspensions are awaits"),
    "C18-seed7": ("C18", "not reported as a violation: C18 quick answers exit 2 (the tracer draws with random.getrandbits, which the environment stub does not model)", "outside the claim", "only the statistical 'about one in N' clause is affected (1/2 instead of 1/3 for N=3); that clause rests on random.randrange, which is trusted"),
    "C18-seed8": ("C18", "C18 quick (sampling_quick, resumption by throw())", "after strengthening", "CPython 3.12 delivers the thrown exception as the call event's arg: added to the environment model"),
})

# round 4 (same session): eight properties whose harnesses had changed most; 24 delivered, 11 repeated earlier changes, 13 kept
R.update({
    "C01-seed8": ("C01", "C01 quick (c01_nestedalt)", "after strengthening", "one key, two value types across two-level merges, through the pipeline"),
    "C02-seed9": ("C02", "C02 quick (step_quick: await in a coroutine frame, then drain; realrun: coro_rebinding)", "at once", "the drain phase of the redesigned step harness shows the lost in-flight state"),
    "C03-seed8": ("C03", "C03 quick (hookfree: mappingproxy around a journaling dict subclass)", "after strengthening", "tripwire kind added"),
    "C09-seed9": ("C09", "C09 quick (E2 Q3/Q4 with rows on two days)", "after strengthening", "GROUP BY ..., date(created_at): the day of a row became a solver variable (before: SQL outside the subset, exit 2)"),
    "C09-seed10": ("C09", "C09 quick (atomic, sqlite3.InterfaceError at row j)", "after strengthening", "exception class added to the injected write faults"),
    "C09-seed11": ("C09", "not reported as a violation: C09 quick answers exit 2 (`LIKE ? ESCAPE` with a per-connection `PRAGMA case_sensitive_like`: outside the modelled SQL)", "outside the claim", "the defect only shows on a second connection that never ran the PRAGMA; per-connection state is not modelled"),
    "C12-seed7": ("C12", "C12 quick (sigrender_quick)", "at once", ""),
    "C12-seed8": ("C12", "C12 quick (genmod_quick: positional-only receiver)", "at once", ""),
    "C12-seed9": ("C12", "C12 quick (genmod_quick, nested class's trace first)", "after strengthening", "needed the order in which the traces arrive"),
    "C14-seed8": ("C14", "C14 quick (diamond1, family mi_mixed)", "after strengthening", "needs two classes with two unrelated bases next to classes deriving from the second base only"),
    "C14-seed9": ("C14", "C14 quick (order2q)", "after strengthening", "a one-shot iterator inside DEFAULT_REWRITER: it had already been consumed in the PARENT process (shard enumeration runs the harness body), so every worker inherited the broken state consistently; enumeration and re-validation now run in forked children"),
    "C18-seed9": ("C18", "C18 quick (realrun_sampled; sampling_quick)", "at once", "realrun_sampled was added while the round was running"),
    "C18-seed10": ("C18", "not reported as a violation: C18 quick answers exit 2 (the tracer draws with random.expovariate)", "outside the claim", "statistical clause only"),
})

# round 5 (third session): nine properties, 27 delivered, 17 repeats of earlier changes, 10 kept
R.update({
    "C04-seed9": ("C04", "C04 quick (sound_odd_2)", "after strengthening", "TypedDicts with the same keys in another insertion order and swapped value types were matched positionally: pair added to the hand-picked grammar"),
    "C06-seed7": ("C06", "C06 quick (tdlimit_odd_2); C04 quick (sound_odd_2)", "after strengthening", "isinstance(k, str) on a key whose __class__ claims str: the value was added AND the engine's isinstance (which never reads __class__) was given CPython's rule, otherwise the change is invisible under the engine"),
    "C07-seed8": ("C07", "C07 quick (stream)", "after strengthening", "a memo keyed by id(union) in a long-lived rewriter: needs a stream of unions through ONE rewriter instance and an id() that reuses a dead object's number (environment model engine/envmodel.py)"),
    "C08-seed8": ("C08", "C08 quick (rt_trace: two equal traces serialise differently)", "after strengthening", "needed a TypedDict argument with two keys (field order inside the stored JSON)"),
    "C10-seed9": ("C10", "C10 quick (stale_full3)", "after strengthening", "stale-row kinds added: module two levels below a removed package; class removed inside a generic"),
    "C10-seed10": ("C10", "C10 quick (stale_full3)", "after strengthening", "kind added: removed module whose name is a textual prefix of a live module"),
    "C11-seed8": ("C11", "C11 quick (tv_quick: Type[_io.StringIO])", "at once", ""),
    "C13-seed8": ("C13", "C13 quick (annot_quick: NewType annotation with None default)", "after strengthening", "fixture ann_newtype_none_default added"),
    "C13-seed9": ("C13", "C13 quick (annot_quick, omit mode on a generator source annotation)", "at once", ""),
    "C16-seed7": ("C16", "C16 quick (confine_quick through the real apply_stub_using_libcst glue)", "after strengthening", "the harness used to call the libcst codemod itself; it now runs MonkeyType's own apply function (libcst untraced) incl. a stub that adds no import"),
})

# round 6 (third session): eight properties, 24 delivered, 13 repeats of earlier changes (all caught or, for the getrandbits one, answered exit 2), 11 kept, one of them (C03-seed11) dropped when the defect it aggravated was repaired
R.update({
    "C01-seed11": ("C01", "C01 quick (c01_realrun: gen_raising)", "at once", "yield types folded into the trace only when the generator finishes by returning"),
    "C02-seed12": ("C02", "C02 quick (sessions)", "after strengthening", "module-level code->function memo shared by all tracers, negative answers included: needs TWO tracing sessions in one process; harness added"),
    "C03-seed9": ("C03", "C03 quick (context)", "at once", "tracing context left by a BaseException-only path"),
    "C03-seed10": ("C03", "C03 quick (hookfree: Journal.__eq__ at a nested-container position)", "at once", "`obj in enclosing_containers` runs __eq__ of the program's objects"),
    "C09-seed12": ("C09", "C09 quick (atomic: a retried batch commits part of it)", "at once", ""),
    "C12-seed10": ("C12", "C12 quick (sigrender_quick: '*' twice)", "at once", ""),
    "C14-seed10": ("C14", "C14 quick (runs)", "after strengthening", "a cached import map mutated for a default-None parameter: the stub of the same rows gains `from typing import Optional` after ANOTHER generation in the process; harness added"),
    "C14-seed11": ("C14", "C14 quick (order3u); also C07 quick (types_mix9)", "after strengthening", "same change as C07-seed3, delivered for C14: neither tier of C14 had three rows giving an empty container, a non-empty one of the same kind and a member containing a union; slim harness added (default rewriter, rows in every order)"),
    "C17-seed10": ("C17", "C17 quick (deffilter_quick: allow-listed name below a directory without __init__.py)", "at once", ""),
    "C18-seed12": ("C18", "C18 quick (sampling_quick: residue in tracer.unsampled)", "at once", ""),
})


def main():
    lines = ["# Seeded changes and which checks catch them", "",
             "Each directory holds patch.diff (applies to /repo's HEAD with `git -C /repo apply`), demo.py (exit 0 / PASS on the unchanged tree, exit 1 / FAIL with the patch) and meta.json.",
             "All were produced by sub-agents that saw only the property text and a scratch worktree; each was confirmed (tests pass with the patch, demo fails with it and passes without) "
             "by tools/try_seed.sh before the check was run against it. Six rounds over three sessions. "
             "'when' says whether the quick check as it stood when the change was first tried caught it. After the strengthenings every change is caught by the "
             "quick tier of its property, except four that are answered exit 2 (inconclusive) by design (C09-seed5, C09-seed11, C18-seed7, C18-seed10).", "",
             "| seed | property | caught by | when | note |", "|---|---|---|---|---|"]
    for name, (pid, by, when, note) in sorted(R.items()):
        d = os.path.join(HERE, "seeded", name)
        mp = os.path.join(d, "meta.json")
        if os.path.exists(mp):
            meta = json.load(open(mp))
            meta.update({"property": pid, "caught_by": by, "caught": when, "note": note,
                         "confirmed_by": "tools/try_seed.sh: patch applied in a scratch worktree, repository test suite passes, demo.py exits 1 with the patch and 0 without; "
                                         "then bin/check <property> quick with VERIF_REPO pointing at the patched worktree"})
            json.dump(meta, open(mp, "w"), indent=1)
        lines.append(f"| {name} | {pid} | {by} | {when} | {note} |")
    open(os.path.join(HERE, "seeded", "RESULTS.md"), "w").write("\n".join(lines) + "\n")
    print(len(R), "seeds")


if __name__ == "__main__":
    main()
