#!/usr/bin/env python3
"""Writes /verif/seeded/<name>/meta.json additions and /verif/seeded/RESULTS.md from the table below."""
import json
import os

HERE = os.path.dirname(os.path.dirname(os.path.abspath(__file__)))
# name -> (property, detected by, how, note)
R = {
    "C01-seed1": ("C01", "C01 quick (c01_nestedx); also C04 quick (sound_nestedx_2), C06 thorough (tdlimit_nested_2)", "after strengthening", "needed two-level merges (lists of str-keyed dicts) with new keys and k>=2; quick tiers had only depth-1 values at first"),
    "C01-seed2": ("C01", "C01 quick (c01_quick, generator configuration); also C09 quick (Q3) and C14 quick (store_order2)", "at once", ""),
    "C02-seed1": ("C02", "C02 quick (step_quick)", "at once", ""),
    "C02-seed2": ("C02", "C02 quick (step_quick)", "at once", ""),
    "C03-seed1": ("C03", "C03 quick (contain: double fault get_type(return)+log)", "at once", ""),
    "C03-seed2": ("C03", "C03 quick (context: body raises)", "at once", ""),
    "C04-seed1": ("C04", "C04 quick (sound_nestedx_2); C06 thorough (tdlimit_nested_2)", "after strengthening", "same mutation as C01-seed1"),
    "C04-seed2": ("C04", "C04 quick (sound_nested2_2)", "after strengthening", "needed a TypedDict with required+optional fields next to a non-dict sibling: nested grammar added"),
    "C05-seed1": ("C05", "C05 quick (tight_nested2_2)", "after strengthening", "oracle judged a TypedDict alternative only on conforming dicts; now an alternative that is the only one of its kind is judged on every observed value of that kind"),
    "C05-seed2": ("C05", "C05 quick (tight_small_2)", "at once", ""),
    "C06-seed1": ("C06", "C06 quick (tdlimit_nestedx_2, c06_nestedx)", "after strengthening", "needed second-level merges of TypedDicts carrying optional keys"),
    "C06-seed2": ("C06", "C06 quick (c06_two_funcs)", "after strengthening", "needed two functions sharing a parameter name in one module stub"),
    "C07-seed1": ("C07", "C07 quick (types_sub11, inferred_tiny)", "at once", ""),
    "C07-seed2": ("C07", "C07 quick (types_sub11, inferred_tiny)", "at once", ""),
    "C08-seed1": ("C08", "C08 quick (history replay: 6 cases in one process)", "after strengthening", "id()-keyed cache: failure depends on what was encoded and freed earlier in the process; the runner now replays failing cases as one history when a single case does not reproduce"),
    "C08-seed2": ("C08", "C08 quick (rt_trace with doubly decorated functions)", "after strengthening", "fixture had only singly decorated functions"),
    "C09-seed1": ("C09", "C09 quick (E2 Q3, replayed with row permutations)", "after strengthening", "SQL front end learned SELECT * / sub-select; LIMIT-before-GROUP BY modelled as an arbitrary subset; patch re-ported onto the LIKE fix"),
    "C09-seed2": ("C09", "C09 quick (atomic_big_quick)", "after strengthening", "needs a batch of more than 500 traces: large-batch atomicity harness added"),
    "C10-seed1": ("C10", "C10 quick (stale_full3, stale_main2)", "at once", ""),
    "C10-seed2": ("C10", "C10 quick (stale_full3)", "after strengthening", "needed a stale row resolving to a slot wrapper / method descriptor: three kinds added"),
    "C11-seed1": ("C11", "C11 quick (collide3q with the like_module_nested placement)", "after strengthening", "needed a class nested in a class named like its module; that placement also exposed a residual genuine defect (known finding C11-ambiguous-dotted-name)"),
    "C11-seed2": ("C11", "C11 quick (tv_quick)", "at once", ""),
    "C12-seed1": ("C12", "C12 quick (sigrender_quick)", "at once", ""),
    "C12-seed2": ("C12", "C12 quick (modstub_quick)", "at once", ""),
    "C13-seed1": ("C13", "C13 quick (annot_quick with annotated self/cls fixtures)", "after strengthening", "fixtures had no annotated receiver"),
    "C13-seed2": ("C13", "C13 quick (annot_quick with Union traced type / Union source annotation on a None default)", "after strengthening", "type alphabet had no None-free Union"),
    "C14-seed1": ("C14", "C14 quick (store_order2); also C09 quick (Q3)", "after strengthening", "SQL-level: a store-level order/batch harness was added to C14; patch re-ported"),
    "C14-seed2": ("C14", "C14 quick (diamond1, family 'tuples')", "after strengthening", "large-union families generalised beyond the class diamond"),
    "C16-seed1": ("C16", "C16 quick (confine_quick with a typing_-prefixed module)", "after strengthening", "stub alphabet had no module whose name starts with 'typing'; patch re-ported onto the pep_563 fixes"),
    "C16-seed2": ("C16", "C16 quick (remove_kernel1: alias ignored)", "at once", "patch re-ported onto the pep_563 fixes"),
    "C17-seed1": ("C17", "C17 quick (deffilter_quick with a real symlinked library root)", "after strengthening", "symlinks were outside the claim; one real symlink to a library root is now created at run time"),
    "C17-seed2": ("C17", "C17 quick (gate with two same-named code objects)", "after strengthening", "first detected for the wrong reason (the oracle demanded that the filter be consulted on every event, which over-demands and was removed); now two code objects sharing file and name get independent verdicts"),
    "C18-seed1": ("C18", "C18 quick (sampling_two)", "after strengthening", "needs two live frames of the same generator function"),
    "C18-seed2": ("C18", "C18 quick (sampling_quick residue check)", "at once", ""),
}

# round 2 (second building session): three changes per property, names <PID>-seed3..5
R.update({
    "C01-seed3": ("C01", "C01 quick (c01_realrun); also C02 quick (realrun)", "after strengthening", "`yield from` delegation is invisible to model frames that carry ONE opcode: the recorded real-run harnesses (real code objects, real f_lasti) were added"),
    "C01-seed4": ("C01", "C01 quick (c01_tuples); also C07 quick (types_mix9)", "after strengthening", "needs None next to tuples of one element type and several lengths, over the union limit: three-call tuple histories added"),
    "C01-seed5": ("C01", "C01 quick (c01_tuples)", "after strengthening", "value-keyed lru_cache: CrossHair skips functools.lru_cache, so the engine could not see it; the real cache is now kept under the engine, every shard runs in a fresh process, bool/int tuples added"),
    "C02-seed3": ("C02", "C02 quick (attribution; realrun with the escaping recursive closure)", "at once", ""),
    "C02-seed4": ("C02", "C02 quick (abandon); the state-injecting step harness abstains (representation guard)", "after strengthening", "id(frame)-keyed table: needs a dead frame and a new frame at its address (abandon harness with an aliasing allocator)"),
    "C02-seed5": ("C02", "C02 quick (realrun: all_kinds / star_then_kwonly)", "after strengthening", "needs *args together with keyword-only parameters on real bytecode; patch re-ported onto the hook-freedom fixes"),
    "C03-seed3": ("C03", "C03 quick (hookfree: first argument of an unresolvable function, side-effecting descriptor)", "at once", "hookfree was built in this session before the change was seen; patch re-ported"),
    "C03-seed4": ("C03", "C03 quick (context)", "at once", ""),
    "C03-seed5": ("C03", "C03 quick (hookfree: value nested two levels deep in the same container kind)", "after strengthening", "`obj in parents` compares containers with ==, which reaches the leaf's __eq__ only for same-kind same-length nestings; patch re-ported"),
    "C04-seed3": ("C04", "C04 quick (sound_nestedx_2)", "at once", ""),
    "C04-seed4": ("C04", "C04 quick (sound_eq_2)", "after strengthening", "value-keyed lru_cache on tuples: lru_cache shim + the eq grammar (1 == True == 1.0)"),
    "C04-seed5": ("C04", "C04 quick (sound_small_2)", "at once", ""),
    "C05-seed3": ("C05", "C05 quick (tight_eq_2)", "after strengthening", "as C04-seed4"),
    "C05-seed4": ("C05", "C05 quick (tight_nested2_2)", "at once", ""),
    "C05-seed5": ("C05", "C05 quick (tight_small_2)", "after strengthening", "oracle: a lone TypedDict alternative is now judged on EVERY observed dict at the position, the empty dict included"),
    "C06-seed3": ("C06", "C06 quick (tdlimit_nestedx_2)", "at once", ""),
    "C06-seed4": ("C06", "C06 quick (tdlimit_nested2_2)", "at once", ""),
    "C06-seed5": ("C06", "C06 quick (c06_two_funcs)", "at once", ""),
    "C07-seed3": ("C07", "C07 quick (types_mix9)", "after strengthening", "needs a member that itself contains a union, placed before an empty container of another kind: second alphabet + member-order bit"),
    "C07-seed4": ("C07", "C07 quick (types_mix9)", "after strengthening", "needs DefaultDict next to Dict with the DefaultDict first"),
    "C07-seed5": ("C07", "C07 quick (types_mix9)", "after strengthening", "needs Tuple[int] and Tuple[int, int] together in the quick alphabet"),
    "C08-seed3": ("C08", "C08 quick (rt_trace)", "at once", ""),
    "C08-seed4": ("C08", "C08 quick (rt_types_enc1)", "at once", ""),
    "C08-seed5": ("C08", "C08 quick (rt_types_enc1)", "at once", ""),
    "C09-seed3": ("C09", "C09 quick (E2 Q3)", "after strengthening", "SELECT DISTINCT was outside the SQL front end (the check answered exit 2); it is now read as GROUP BY the selected columns"),
    "C09-seed4": ("C09", "C09 quick (atomic)", "at once", ""),
    "C09-seed5": ("C09", "not reported as a violation: C09 quick answers exit 2 (store set-up executes `PRAGMA journal_mode = MEMORY`, outside the modelled statements)", "outside the claim", "needs SIGKILL of a writer inside a >2 MB transaction: crash points inside SQLite are outside this family; the statement audit at least refuses to say 'holds'"),
    "C10-seed3": ("C10", "C10 quick (stale_full3)", "after strengthening", "needs a removed module whose name is a textual prefix of the live module's: kind added"),
    "C10-seed4": ("C10", "C10 quick (stale_full3)", "at once", ""),
    "C10-seed5": ("C10", "C10 quick (stale_full3)", "at once", ""),
    "C11-seed3": ("C11", "C11 quick (tv_quick)", "at once", ""),
    "C11-seed4": ("C11", "C11 quick (collide3q)", "at once", ""),
    "C11-seed5": ("C11", "C11 quick (tv_quick)", "at once", ""),
    "C12-seed3": ("C12", "C12 quick (sigrender_quick; genmod_quick)", "at once", ""),
    "C12-seed4": ("C12", "C12 quick (modstub_quick; genmod_quick)", "at once", ""),
    "C12-seed5": ("C12", "C12 quick (genmod_quick, replayed as a history in one process)", "after strengthening", "lru_cache keyed by module/qualname strings: needs a module regenerated under the same name in one process; generated-module harness + lru_cache shim"),
    "C13-seed3": ("C13", "C13 quick (annot_quick)", "after strengthening", "fixtures had no annotated *args/**kwargs"),
    "C13-seed4": ("C13", "C13 quick (annot_quick)", "after strengthening", "fixtures had no string annotation on a None default"),
    "C13-seed5": ("C13", "C13 quick (annot_quick)", "after strengthening", "needs a source-annotated generator and a non-trivial rewriter: rewriter bit + fixture"),
    "C14-seed3": ("C14", "C14 quick (store_order2); also C09 quick (Q3)", "after strengthening", "needs a --limit that bites on raw rows but not on distinct ones and the duplicate row among the first rows"),
    "C14-seed4": ("C14", "C14 quick (samesig)", "after strengthening", "needs two functions whose traced signatures compare equal and mention a class of the stubbed module"),
    "C14-seed5": ("C14", "C14 quick (order2q)", "at once", ""),
    "C16-seed3": ("C16", "C16 quick (confine_quick)", "after strengthening", "needs a function-local `from m import X` of exactly the stub's import"),
    "C16-seed4": ("C16", "C16 quick (remove_kernel1)", "at once", ""),
    "C16-seed5": ("C16", "C16 quick (confine_quick)", "after strengthening", "needs a star import of a module whose __all__ does not export the name; oracle now requires every stub import to be somewhere in the result"),
    "C17-seed3": ("C17", "C17 quick (deffilter_quick)", "after strengthening", "file-level link into the standard library added"),
    "C17-seed4": ("C17", "C17 quick (deffilter_quick)", "after strengthening", "needs an allow-list entry equal to a component of the working directory"),
    "C17-seed5": ("C17", "C17 quick (gate, recycled mode)", "after strengthening", "id(code)-keyed memo: needs a dead code object and a new one at its address"),
    "C18-seed3": ("C18", "C18 quick (sampling_quick)", "at once", ""),
    "C18-seed4": ("C18", "C18 quick (abandon)", "after strengthening", "id(frame) in the unsampled set: dead frame + aliasing allocator; the new call must take exactly one draw"),
    "C18-seed5": ("C18", "C18 quick (sampling_quick residue check)", "at once", ""),
})


def main():
    lines = ["# Seeded changes and which checks catch them", "",
             "Each directory holds patch.diff (applies to /repo's HEAD with `git -C /repo apply`), demo.py (exit 0 / PASS on the unchanged tree, exit 1 / FAIL with the patch) and meta.json.",
             "All were produced by sub-agents that saw only the property text and a scratch worktree; each was confirmed (tests pass with the patch, demo fails with it and passes without) "
             "by tools/try_seed.sh before the check was run against it.", "",
             "| seed | property | caught by | when | note |", "|---|---|---|---|---|"]
    for name, (pid, by, when, note) in sorted(R.items()):
        d = os.path.join(HERE, "seeded", name)
        mp = os.path.join(d, "meta.json")
        if os.path.exists(mp):
            meta = json.load(open(mp))
            meta.update({"property": pid, "caught_by": by, "caught": when, "note": note,
                         "confirmed_by": "tools/try_seed.sh: patch applied in a scratch worktree, repository test suite passes, demo.py exits 1 with the patch and 0 without; "
                                         "then bin/check <property> quick with VERIF_REPO pointing at the patched worktree"})
            json.dump(meta, open(mp, "w"), indent=1)
        lines.append(f"| {name} | {pid} | {by} | {when} | {note} |")
    open(os.path.join(HERE, "seeded", "RESULTS.md"), "w").write("\n".join(lines) + "\n")
    print(len(R), "seeds")


if __name__ == "__main__":
    main()
