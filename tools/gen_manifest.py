#!/usr/bin/env python3
"""Regenerates MANIFEST.json from the table below (so the file is always schema-valid)."""
import json
import os

HERE = os.path.dirname(os.path.dirname(os.path.abspath(__file__)))
BASELINE_OFF = ("cd /repo && /venv/bin/python -m pytest -ra -q -p no:cacheprovider --timeout=900 "
                "--continue-on-collection-errors --junitxml=/tmp/verif_baseline_junit.xml")

TRUST = ("Trusted base: CrossHair 0.0.110 proxies + z3 5.1.0; the reference oracles in harness/oracles.py and "
         "harness/stubeval.py (self-tested); every counterexample is re-executed in a plain interpreter on /repo "
         "before a VIOLATION is printed. ")

# id -> (built, category, technique, text, note, design_ref)   -- or a not-applicable reason
CHECKS = {
    "C04": (True, "model_checking",
            "symbolic execution of get_type/shrink_types (CrossHair+z3), tape-decoded value shapes, k symbolic, bounded tree exhausted",
            "Bounded-exhaustive symbolic execution of the real inference and merge code: value shapes are decoded from symbolic "
            "tapes, the size limit k is an unconstrained solver integer, and the path tree is exhausted within the stated grammar "
            "bounds; membership, order- and multiplicity-independence are asserted on every path. Holds for every k >= 0 within "
            "the value bounds; says nothing about values outside the grammar.",
            TRUST + "Values outside the grammar, self-referential containers and k < 0 are outside the claim.", "DESIGN.md#C04"),
}

NOT_APPLICABLE = {
    "C15": "decided entirely by libcst's ApplyTypeAnnotationsVisitor and native parser on whole source files: ~150 s per path "
           "under the symbolic engine, source text must be concrete before it reaches the parser, nothing symbolic survives "
           "(DESIGN.md C15); a bounded check would be concrete enumeration, which is outside this technique family",
}


def main():
    props = [json.loads(line)["id"] for line in open(os.path.join(HERE, "properties.jsonl"))]
    checks, na = [], []
    for pid in props:
        if pid in CHECKS and CHECKS[pid][0]:
            _, cat, tech, text, note, ref = CHECKS[pid]
            checks.append({
                "property_id": pid,
                "quick_cmd": f"bin/check {pid} quick",
                "thorough_cmd": f"bin/check {pid} thorough",
                "evidence_file": f"/verif/evidence/{pid}.json",
                "replay_cmd_template": "bin/check --replay {path}",
                "engine": "chx" if pid != "C09" else "smt+chx",
                "level_claimed": {"category": cat, "text": text, "design_ref": ref},
                "level_note": note,
                "technique": tech,
            })
        elif pid in NOT_APPLICABLE:
            na.append({"property_id": pid, "reason": NOT_APPLICABLE[pid]})
        else:
            na.append({"property_id": pid, "reason": "check not built yet in this round (planned in DESIGN.md); not claimed until its harness exists"})
    manifest = {
        "version": 1,
        "setup_cmd": "./setup.sh",
        "hooks": {
            "guard": "INSTAGRAM_MONKEYTYPE_VERIF",
            "enable": "no hooks in /repo are needed: harnesses use existing seams (constructor arguments, module-global "
                      "substitution done by the harness at run time); checks import monkeytype from /repo's working tree",
            "baseline_off_cmd": BASELINE_OFF,
            "source_commits": [],
            "add_only": True,
        },
        "engines": [
            {"name": "chx", "path": "engine/chx.py", "serves_properties": [c["property_id"] for c in checks if c["engine"] != "smt"],
             "kind_free_text": "CrossHair 0.0.110 used as a library: symbolic execution of the real monkeytype bytecode with z3-backed "
                               "ints/bools/strs; per-path verdicts, tree-exhaustion flag, sharding over 16 processes, concrete replay"},
            {"name": "smt", "path": "engine/smt.py", "serves_properties": [c["property_id"] for c in checks if "smt" in c["engine"]],
             "kind_free_text": "direct z3 queries (cross-checked with cvc5) over an SMT encoding of the SQL text produced by the real "
                               "make_query/list_modules"},
        ],
        "checks": checks,
        "not_applicable": na,
        "notes": "All checks are solver-based (symbolic execution of /repo's current source, or SMT encodings regenerated from it "
                 "on every run). Exit 0 held / 1 VIOLATION (replayed concretely first) / 2 inconclusive. See DESIGN.md.",
    }
    with open(os.path.join(HERE, "MANIFEST.json"), "w") as f:
        json.dump(manifest, f, indent=1)
    try:
        import jsonschema

        jsonschema.validate(manifest, json.load(open("/root/.vp/MANIFEST.schema.json")))
        print("MANIFEST.json valid;", len(checks), "checks,", len(na), "not applicable")
    except ImportError:
        print("MANIFEST.json written (jsonschema not available to validate)")


if __name__ == "__main__":
    main()
