#!/usr/bin/env python3
"""Regenerates MANIFEST.json from the table below (so the file is always schema-valid)."""
import json
import os

HERE = os.path.dirname(os.path.dirname(os.path.abspath(__file__)))
BASELINE_OFF = ("cd /repo && /venv/bin/python -m pytest -ra -q -p no:cacheprovider --timeout=900 "
                "--continue-on-collection-errors --junitxml=/tmp/verif_baseline_junit.xml")

TRUST = ("Trusted base: CrossHair 0.0.110 proxies + z3 5.1.0; the reference oracles in harness/oracles.py and "
         "harness/stubeval.py (self-tested); every counterexample is re-executed in a plain interpreter on /repo "
         "before a VIOLATION is printed. ")

# id -> (built, category, technique, text, note, design_ref)   -- or a not-applicable reason
CHECKS = {
    "C04": (True, "model_checking",
            "symbolic execution of get_type/shrink_types (CrossHair+z3), tape-decoded value shapes, k symbolic, bounded tree exhausted",
            "Bounded-exhaustive symbolic execution of the real inference and merge code: value shapes are decoded from symbolic "
            "tapes, the size limit k is an unconstrained solver integer, and the path tree is exhausted within the stated grammar "
            "bounds; membership, order- and multiplicity-independence are asserted on every path. Holds for every k >= 0 within "
            "the value bounds; says nothing about values outside the grammar.",
            TRUST + "Values outside the grammar, self-referential containers and k < 0 are outside the claim.", "DESIGN.md#C04"),
    "C05": (True, "model_checking",
            "symbolic execution of get_type/shrink_types (CrossHair+z3) with a lock-step witness oracle, k symbolic, bounded tree exhausted",
            "Same bounded-exhaustive symbolic exploration as C04 with the tightness oracle: every union alternative at every nesting "
            "position must be exactly witnessed by observed values, class names exact, Any only for observed empty containers, TypedDict "
            "required/optional keys justified by the observed dicts; for every k >= 0.",
            TRUST + "Interpretation choices (generator objects, callables and Type[C] are atoms) are listed in the evidence assumptions.", "DESIGN.md#C05"),
    "C06": (True, "model_checking",
            "symbolic execution of inference/merge with k symbolic (CrossHair+z3); every type node walked for TypedDict size/shape",
            "Bounded-exhaustive symbolic exploration with k an unconstrained solver integer: k == 0 => no TypedDict anywhere, k > 0 => at most "
            "k keys, never empty, only for all-string-keyed dicts; checked on per-value types and the merged type (type level), and through "
            "the store round trip and the rendered module stub (pipeline level).",
            TRUST + "Dict sizes are bounded by the grammar of the tier.", "DESIGN.md#C06"),
    "C02": (True, "model_checking",
            "one inductive step of the real CallTracer from an arbitrary valid state, opcode/flags/event/values symbolic (CrossHair+z3); environment contract validated against the live interpreter",
            "One symbolic transition of CallTracer.__call__ from an arbitrary invariant-satisfying tracer state covers call histories of any "
            "length by induction; the last executed opcode is an unconstrained integer, so every opcode (not only those the tests happen to "
            "produce) is classified; the post-state and the log are compared with a reference transition. Function attribution is checked on "
            "frames recorded from the running interpreter; the whole recorded workload (real code objects, real f_lasti) is replayed through "
            "the real tracer for every single-code filter (the workload includes two modules with byte-identical source, whose code objects "
            "compare equal); a new frame allocated at a dead frame's address must be traced as a new call.",
            TRUST + "The model of which events CPython delivers is an environment contract, validated natively on every run (exit 2 if it "
            "disagrees). Async generators, throw()/close() on suspended generators, C frames and threads are outside the claim.", "DESIGN.md#C02"),
    "C18": (True, "model_checking",
            "symbolic execution of CallTracer under a scripted random stub: rate and every draw are solver integers; event scripts exhausted",
            "The sampling rate (None, 0, 1, every N >= 2) and each random draw are solver variables; for every event script of a generator-like "
            "frame within the bound the logged traces are exactly those of the calls sampled at their first call event, undistorted, with no residue; "
            "a new call on a frame allocated at an abandoned generator frame's address takes its own draw.",
            TRUST + "random.randrange is a stub constrained only by its contract; uniformity is trusted for the statistical reading.", "DESIGN.md#C18"),
    "C03": (True, "fault_enumeration",
            "symbolic fault schedules (one solver bool per fault site) and tripwire-object selectors with k symbolic through the real CallTracer.__call__, get_type, get_func and trace_calls (CrossHair+z3); CPython's isinstance modelled by a contract validated natively every run",
            "Claimed in part. Every combination of injected faults (type collection on arguments / return values, objects whose inspection "
            "raises, function lookup, logger.log) x 6 exception classes x 3 event scripts is decided symbolically: nothing escapes __call__. "
            "All 2^3 exit scenarios of trace_calls (and of monkeytype.trace(config)) restore the previous profiler before flushing exactly once. "
            "Hook freedom: for 12 kinds of tripwire objects (attribute hooks, __class__ properties, side-effecting descriptors, journaling "
            "hash/eq/bool/repr/len, list/tuple/set/dict/defaultdict subclasses overriding the container protocol, metaclass hooks) at 16 positions "
            "(argument, nested in every builtin container incl. dict key, return, yield, receiver, module global, global named like the function, "
            "caller local, first argument of an unresolvable function) and every k, the journal of user-defined code run by the tracer is empty; "
            "every explored path is re-executed natively. The process-wide random generator (the traced program's own random numbers) must not be "
            "drawn from, with or without a sample rate.",
            TRUST + "The clause 'same results with and without tracing' as a two-run whole-program differential is NOT claimed; the channels through "
            "which the tracer could change a program (hooks, escaping exceptions, profiler slot, global random state) are. The engine's own "
            "probes of objects (__class__ reads by its internal isinstance checks, __ch_* lookups) are filtered from the journal by call stack; "
            "MonkeyType's isinstance calls run through a Python transcription of CPython's object_isinstance, compared with the builtin on every run.", "DESIGN.md#C03"),
    "C17": (True, "model_checking",
            "symbolic execution (CrossHair+z3): filter verdict symbolic bool, func.__module__ symbolic str, default_code_filter on tape-composed paths vs an independent path predicate",
            "Claimed in part. The custom-filter gate and the __main__ exclusion are decided for every verdict / every module-name string "
            "(the solver finds e.g. '__main__\\x00' against a prefix test); the default filter is compared with an independent string-based "
            "predicate on all file names composed from library roots, textual siblings, a directory link to a root, a user file that is a link "
            "into the standard library, components and allow-lists (incl. the working directory's own name) within the bound; code objects "
            "that die and are re-allocated at the same address keep independent verdicts; identical source loaded from a library file and from a "
            "user file (equal code objects) is judged per file by the shipped filter with its memoisation, in both orders.",
            TRUST + "Staleness of the default filter's memo when MONKEYTYPE_TRACE_MODULES changes inside one process and enumeration of all installed code objects are outside the claim.", "DESIGN.md#C17"),
    "C07": (True, "model_checking",
            "symbolic execution of every shipped rewriter on tape-decoded types (CrossHair+z3), max_union_len symbolic; admits/trigger oracles",
            "Every shipped rewriter, the default chain and all ordered pairs are executed symbolically on unions over arbitrary member subsets "
            "(at several container positions), on a recursive type grammar and on types inferred from values; max_union_len is an "
            "unconstrained solver integer. Asserted: no exception, the result admits everything the input admitted (witness values stay "
            "members), and without the documented trigger the type is unchanged. A second member alphabet (Dict/DefaultDict, tuples of "
            "three lengths, empty containers of several kinds, members containing unions) is explored in both member orders. One long-lived rewriter "
            "instance is also fed a stream of short-lived unions under an adversarial model of id() (recycled numbers).",
            TRUST + "The structural 'admits' relation and the trigger predicates are part of the trusted oracle.", "DESIGN.md#C07"),
    "C08": (True, "model_checking",
            "symbolic execution of encode/decode on tape-decoded types, inferred types (k symbolic) and call traces (CrossHair+z3); struct_eq and byte-identical-JSON oracles",
            "Round trips through the real JSON encoders/decoders for every type shape of the grammar, every type inferred from pairs of grammar "
            "values for every k, their default-rewritten forms, and call traces of every fixture function kind with return/yield absent, "
            "NoneType or a type; decoded types are compared structurally (never with ==), encoding determinism is checked against an "
            "independently rebuilt twin type.",
            TRUST + "json / importlib are C and IO boundaries (concrete per path).", "DESIGN.md#C08"),
    "C11": (True, "model_checking",
            "symbolic execution of the real stub renderer (CrossHair+z3): solver-chosen module-name pairs from all dotted identifiers up to a length bound; tape-decoded types validated through an independent stub evaluator",
            "(A) every pair of module names from the complete set of dotted identifiers over {a,b,.} up to the length bound, with class "
            "placements and container contexts, is pushed through build_module_stubs().render() and compared with the independently composed "
            "stub; (B) every grammar type at every position/context is rendered by the real pipeline and the stub text is evaluated with only "
            "the names the stub provides; the evaluated annotation must equal the type structurally. Bounded trees are exhausted.",
            TRUST + "The stub evaluator harness/stubeval.py is part of the trusted oracle. Same-named classes from two modules are outside the claim.", "DESIGN.md#C11"),
    "C12": (True, "model_checking",
            "symbolic execution of render_signature with max_line_len an unconstrained solver integer, and of build_module_stubs_from_traces over solver-chosen traced subsets (CrossHair+z3); ast round-trip oracle",
            "Signatures valid by construction are rendered with a symbolic line width (every width, both wrapping branches) and parsed back: "
            "names, kinds, order, separators and default presence must equal the signature. Every non-empty subset of the fixture module's "
            "functions (all kinds, nested classes) is traced and the rendered module stub must parse and contain exactly those functions, in "
            "their classes, with matching decorators/async and real signatures; the receiver is never annotated. REAL functions of ten kinds "
            "are also generated (exec) from the signature tape into a module that is regenerated under one name on every path.",
            TRUST + "Signature shapes are bounded per tier (per-kind counts).", "DESIGN.md#C12"),
    "C13": (True, "model_checking",
            "symbolic execution of get_updated_definition/update_signature_* over strategy x function x traced-subset x trace-shape decisions (CrossHair+z3); per-position table oracle",
            "The full decision matrix strategy x annotated-in-source x traced x None-default x receiver x return/yield shape is explored over "
            "partially annotated fixture functions; the rendered stub is evaluated and compared position by position with the table written "
            "from the property text. Bounded tree exhausted.",
            TRUST + "Finite selectors: exhausting the path tree equals complete enumeration of the bounded matrix (stated in the evidence rule).", "DESIGN.md#C13"),
    "C01": (True, "model_checking",
            "symbolic execution of the whole run->store->stub pipeline on tape-decoded call histories, k symbolic (CrossHair+z3); stub text evaluated by an independent evaluator; membership oracle",
            "Per path the real tracer, logger, SQLite store, decoder, get_stub, rewriters and renderers run on a call history decoded from a symbolic "
            "tape, with k a solver integer; the emitted stub TEXT is evaluated with only the names it provides and every observed argument, return and "
            "yield value must be a member of the annotation at its position. The same oracle is applied to the fixture workload as recorded "
            "from the running interpreter (real code objects and bytecode offsets) for every rewriter x CLI flag x class of k. Bounded "
            "trees exhausted in the quick tier.",
            TRUST + "Frames are the C02 environment model or recorded real events; SQLite is real (concrete rows per path).", "DESIGN.md#C01"),
    "C10": (True, "model_checking",
            "symbolic execution of cli.print_stub_handler / cli.main over solver-chosen sequences of valid and stale rows (CrossHair+z3); differential oracle against the decodable subsequence",
            "Every sequence (length 3 quick / 4 thorough) over 4 decodable and 19 stale row kinds, with and without -v, is pushed through the real "
            "CLI handler (and through cli.main with argv for shorter sequences): exit status 0, stdout identical to the run on the decodable rows "
            "alone, exactly the skipped count on stderr, 'No traces found' iff nothing decodes.",
            TRUST + "Finite selectors: the solver's role is branch feasibility; exhausting the tree equals complete enumeration of the bound.", "DESIGN.md#C10"),
    "C14": (True, "model_checking",
            "symbolic execution of build_module_stubs_from_traces with solver-chosen row permutations and solver-chosen iteration orders of every set in monkeytype.stubs (CrossHair+z3)",
            "Hash-seed and memory-layout nondeterminism become solver variables: every set built inside monkeytype.stubs iterates in a "
            "solver-chosen order, rows are permuted/duplicated symbolically, and the resulting stub must equal the reference stub up to union "
            "member order; includes the diamond case that exercises RewriteLargeUnion's ancestor choice, functions with equal signatures, "
            "and the SQLite store with a --limit equal to the number of calls and a duplicated row at any position.",
            TRUST + "Sets are assumed to be the only hash-ordered structure used by the pipeline; real PYTHONHASHSEED variation across processes is not run.", "DESIGN.md#C14"),
    "C09": (True, "model_checking",
            "SQL text of the real make_query/list_modules compiled to SMT (z3 strings + bounded relation, cvc5 cross-check in thorough) and compared with the specification; Python-level batch atomicity by symbolic execution against a model connection",
            "Claimed in part. The query text obtained from the real code is parsed and encoded over a bounded symbolic relation; nine negated-property "
            "queries (filter soundness/completeness, cardinality min(n,d), distinctness, module listing) must be unsat; sat models are replayed on a "
            "real SQLiteStore. Batch atomicity is decided symbolically at the Python level for every batch of <= 4 traces, every unserialisable "
            "subset and every interruption point against the documented sqlite3 context-manager contract.",
            TRUST + "The hand-written SQLite semantics (LIKE/GLOB/substr/instr, GROUP BY, LIMIT) is validated differentially against real SQLite on "
            "~17 000 concrete rows each run. Multi-process schedules, crashes inside SQLite and durability are NOT claimed.", "DESIGN.md#C09"),
    "C16": (True, "model_checking",
            "symbolic execution of RemoveImportsTransformer with solver-string ImportItems on pre-parsed trees, and of MoveImportsToTypeCheckingBlockVisitor.transform_module over (source, stub) selectors (CrossHair+z3)",
            "Claimed in part. The import items to move have symbolic module/object strings, so the solver searches for any item that makes the "
            "transformer delete an import the source already had; the full confinement pass runs under the engine on natively annotated trees and the "
            "resulting module must keep its imports, confine exactly the annotation-only new ones, keep typing and the TypedDict base at runtime, "
            "and execute.",
            TRUST + "libcst's parser and annotation insertion run natively as preparation and are not claimed.", "DESIGN.md#C16"),
}

NOT_APPLICABLE = {
    "C15": "decided entirely by libcst's ApplyTypeAnnotationsVisitor and native parser on whole source files: ~150 s per path "
           "under the symbolic engine, source text must be concrete before it reaches the parser, nothing symbolic survives "
           "(DESIGN.md C15); a bounded check would be concrete enumeration, which is outside this technique family",
}


def main():
    props = [json.loads(line)["id"] for line in open(os.path.join(HERE, "properties.jsonl"))]
    checks, na = [], []
    for pid in props:
        if pid in CHECKS and CHECKS[pid][0]:
            _, cat, tech, text, note, ref = CHECKS[pid]
            checks.append({
                "property_id": pid,
                "quick_cmd": f"bin/check {pid} quick",
                "thorough_cmd": f"bin/check {pid} thorough",
                "evidence_file": f"/verif/evidence/{pid}.json",
                "replay_cmd_template": "bin/check --replay {path}",
                "engine": "chx" if pid != "C09" else "smt+chx",
                "level_claimed": {"category": cat, "text": text, "design_ref": ref},
                "level_note": note,
                "technique": tech,
            })
        elif pid in NOT_APPLICABLE:
            na.append({"property_id": pid, "reason": NOT_APPLICABLE[pid]})
        else:
            na.append({"property_id": pid, "reason": "check not built yet in this round (planned in DESIGN.md); not claimed until its harness exists"})
    manifest = {
        "version": 1,
        "setup_cmd": "./setup.sh",
        "hooks": {
            "guard": "INSTAGRAM_MONKEYTYPE_VERIF",
            "enable": "no hooks in /repo are needed: harnesses use existing seams (constructor arguments, module-global "
                      "substitution done by the harness at run time); checks import monkeytype from /repo's working tree",
            "baseline_off_cmd": BASELINE_OFF,
            "source_commits": [],
            "add_only": True,
        },
        "engines": [
            {"name": "chx", "path": "engine/chx.py", "serves_properties": [c["property_id"] for c in checks if c["engine"] != "smt"],
             "kind_free_text": "CrossHair 0.0.110 used as a library: symbolic execution of the real monkeytype bytecode with z3-backed "
                               "ints/bools/strs; per-path verdicts, tree-exhaustion flag, sharding over 16 processes, concrete replay"},
            {"name": "smt", "path": "engine/smt.py", "serves_properties": [c["property_id"] for c in checks if "smt" in c["engine"]],
             "kind_free_text": "direct z3 queries (cross-checked with cvc5) over an SMT encoding of the SQL text produced by the real "
                               "make_query/list_modules"},
        ],
        "checks": checks,
        "not_applicable": na,
        "notes": "All checks are solver-based (symbolic execution of /repo's current source, or SMT encodings regenerated from it "
                 "on every run). Exit 0 held / 1 VIOLATION (replayed concretely first) / 2 inconclusive. See DESIGN.md.",
    }
    with open(os.path.join(HERE, "MANIFEST.json"), "w") as f:
        json.dump(manifest, f, indent=1)
    try:
        import jsonschema

        jsonschema.validate(manifest, json.load(open("/root/.vp/MANIFEST.schema.json")))
        print("MANIFEST.json valid;", len(checks), "checks,", len(na), "not applicable")
    except ImportError:
        print("MANIFEST.json written (jsonschema not available to validate)")


if __name__ == "__main__":
    main()
