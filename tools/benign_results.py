#!/usr/bin/env python3
"""Writes /verif/seeded/benign/RESULTS.md from the metas under seeded/benign/ and a log of tools/try_benign.sh runs."""
import json
import os
import re
import sys

HERE = os.path.dirname(os.path.dirname(os.path.abspath(__file__)))


def main(log):
    exits = {}
    for line in open(log):
        m = re.match(r"\[(\S+)\] check_(C\d+)_quick_exit=(\S+)", line)
        if m:
            exits[m.group(1)] = (m.group(2), m.group(3))
    base = os.path.join(HERE, "seeded", "benign")
    lines = ["# Property-preserving changes (false-alarm probe)", "",
             "Each directory holds patch.diff, demo.py (PASS with and without the change) and meta.json (what was changed, why the property is preserved).",
             "Produced by sub-agents that saw only the property text and a scratch worktree; confirmed and run by tools/try_benign.sh: the quick check of the "
             "property must exit 0 with the change applied.", "", "| change | property | kind | quick check | what it changes |", "|---|---|---|---|---|"]
    for name in sorted(os.listdir(base)):
        mp = os.path.join(base, name, "meta.json")
        if not os.path.exists(mp):
            continue
        meta = json.load(open(mp))
        pid, ex = exits.get(name, (meta.get("property", "?"), "not run"))
        meta["quick_check_exit"] = ex
        json.dump(meta, open(mp, "w"), indent=1)
        lines.append(f"| {name} | {pid} | {meta.get('kind', '')} | exit {ex} | {meta.get('summary', '')[:300].replace('|', '/').replace(chr(10), ' ')} |")
    open(os.path.join(base, "RESULTS.md"), "w").write("\n".join(lines) + "\n")
    print(len(lines) - 7, "changes")


if __name__ == "__main__":
    main(sys.argv[1] if len(sys.argv) > 1 else "/tmp/benignall.log")
