#!/bin/bash
# usage: tools/try_seed.sh <PID> <seed-dir> <name> [tier]   -- confirm a seeded change and run the property's check against it
PID=$1; SRC=$2; NAME=$3; TIER=${4:-quick}
WT=/tmp/wt/$PID
DEST=/verif/seeded/$NAME
set -u
cd $WT || exit 2
git checkout -q -- monkeytype
base_demo=$(/venv/bin/python $SRC/demo.py >/tmp/seed_demo_base.txt 2>&1; echo $?)
git apply $SRC/patch.diff || { echo "PATCH DOES NOT APPLY"; exit 2; }
tests=$(/venv/bin/python -m pytest -q -p no:cacheprovider tests demo --deselect tests/test_config.py::TestDefaultCodeFilter::test_excludes_site_packages 2>&1 | tail -1)
mut_demo=$(/venv/bin/python $SRC/demo.py >/tmp/seed_demo_mut.txt 2>&1; echo $?)
echo "[$NAME] demo pristine exit=$base_demo, demo patched exit=$mut_demo, tests: $tests"
cd /verif
out=$(VERIF_REPO=$WT VERIF_EVIDENCE_DIR=/tmp/verif-mutant-evidence bin/check $PID $TIER 2>&1 | grep -v "WARNING conda")
rc=$(echo "$out" | grep -c "^VIOLATION property=$PID")
echo "$out" | grep -A1 "^VIOLATION" | head -4 | cut -c1-400
echo "$out" | tail -1
git -C $WT checkout -q -- monkeytype
mkdir -p $DEST && cp $SRC/patch.diff $SRC/demo.py $SRC/meta.json $DEST/
echo "[$NAME] detected_by_${PID}_${TIER}=$([ $rc -gt 0 ] && echo yes || echo NO)"
