#!/bin/bash
# usage: tools/try_seed.sh <PID> <seed-dir> <name> [tier] [extra check ids...]
# Confirms a seeded change on a scratch worktree of /repo's HEAD (suite passes with it, demo fails with it and passes
# without) and runs the property's check against it.  The worktree lives under /tmp and is removed afterwards.
PID=$1; SRC=$2; NAME=$3; TIER=${4:-quick}; shift 4 2>/dev/null
EXTRA="$@"
WT=/tmp/wtc/$NAME
DEST=/verif/seeded/$NAME
set -u
rm -rf $WT; git -C /repo worktree prune
git -C /repo worktree add -q --detach $WT HEAD || exit 2
cleanup() { git -C /repo worktree remove --force $WT 2>/dev/null; }
trap cleanup EXIT
cd $WT || exit 2
base_demo=$(/venv/bin/python $SRC/demo.py >/tmp/seed_demo_base_$NAME.txt 2>&1; echo $?)
git apply $SRC/patch.diff 2>/dev/null || git apply --3way $SRC/patch.diff || { echo "[$NAME] PATCH DOES NOT APPLY to HEAD"; exit 2; }
git reset -q
tests=$(/venv/bin/python -m pytest -q -p no:cacheprovider tests demo --deselect tests/test_config.py::TestDefaultCodeFilter::test_excludes_site_packages 2>&1 | tail -1)
mut_demo=$(/venv/bin/python $SRC/demo.py >/tmp/seed_demo_mut_$NAME.txt 2>&1; echo $?)
echo "[$NAME] demo pristine exit=$base_demo, demo patched exit=$mut_demo, tests: $tests"
cd /verif
for P in $PID $EXTRA; do
  out=$(VERIF_REPO=$WT VERIF_STOP_ON_VIOLATION=1 VERIF_EVIDENCE_DIR=/tmp/verif-mutant-evidence bin/check $P $TIER 2>&1 | grep -v "WARNING conda")
  rc=$(echo "$out" | grep -c "^VIOLATION property=$P")
  echo "$out" | grep -A1 "^VIOLATION" | head -4 | cut -c1-400
  echo "$out" | tail -1
  echo "[$NAME] detected_by_${P}_${TIER}=$([ $rc -gt 0 ] && echo yes || echo NO)"
done
mkdir -p $DEST && for f in $SRC/*; do case $(basename $f) in patch*|__pycache__) ;; *) [ "$f" -ef "$DEST/$(basename $f)" ] || cp -r $f $DEST/ ;; esac; done; git -C $WT diff > $DEST/patch.diff
