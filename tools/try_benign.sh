#!/bin/bash
# usage: tools/try_benign.sh <PID> <change-dir> <name> [tier]
# Confirms a property-PRESERVING change (suite passes, its demo passes with and without it) and runs the property's check
# against it: the check must exit 0 (any VIOLATION or non-zero exit is a false alarm of the machinery).
PID=$1; SRC=$2; NAME=$3; TIER=${4:-quick}
WT=/tmp/wtc/$NAME
DEST=/verif/seeded/benign/$NAME
set -u
rm -rf $WT; git -C /repo worktree prune
git -C /repo worktree add -q --detach $WT HEAD || exit 2
cleanup() { git -C /repo worktree remove --force $WT 2>/dev/null; }
trap cleanup EXIT
cd $WT || exit 2
base_demo=$(/venv/bin/python $SRC/demo.py >/tmp/benign_demo_base_$NAME.txt 2>&1; echo $?)
git apply $SRC/patch.diff 2>/dev/null || git apply --3way $SRC/patch.diff || { echo "[$NAME] PATCH DOES NOT APPLY to HEAD"; exit 2; }
git reset -q
tests=$(/venv/bin/python -m pytest -q -p no:cacheprovider tests demo --deselect tests/test_config.py::TestDefaultCodeFilter::test_excludes_site_packages 2>&1 | tail -1)
mut_demo=$(/venv/bin/python $SRC/demo.py >/tmp/benign_demo_mut_$NAME.txt 2>&1; echo $?)
echo "[$NAME] demo pristine exit=$base_demo, demo patched exit=$mut_demo, tests: $tests"
cd /verif
out=$(VERIF_REPO=$WT VERIF_EVIDENCE_DIR=/tmp/verif-mutant-evidence bin/check $PID $TIER 2>&1 | grep -v "WARNING conda")
rc=$?
echo "$out" | grep -E "^VIOLATION|^INCONCLUSIVE|^  " | head -6 | cut -c1-400
echo "$out" | tail -1
ex=$(echo "$out" | tail -1 | sed -n 's/.*-> exit \([0-9]*\).*/\1/p')
echo "[$NAME] check_${PID}_${TIER}_exit=${ex:-?}"
mkdir -p $DEST && for f in $SRC/*; do case $(basename $f) in patch*|__pycache__) ;; *) [ "$f" -ef "$DEST/$(basename $f)" ] || cp -r $f $DEST/ ;; esac; done; git -C $WT diff > $DEST/patch.diff
