#!/usr/bin/env python3
"""Self-test of the trusted reference oracles (run by setup.sh): conforms / struct_eq / witnessed /
admits on vectors taken from the repository's own tests (tests/test_typing.py, tests/test_stubs.py,
tests/test_encoding.py), and the stub evaluator on stub texts those tests expect."""
import os
import sys
from collections import defaultdict
from typing import Any, Callable, DefaultDict, Dict, Generator, Iterator, List, Optional, Set, Tuple, Type, Union

HERE = os.path.dirname(os.path.dirname(os.path.abspath(__file__)))
sys.path[:0] = [HERE, os.path.join(HERE, "fixtures")]
from harness.common import REPO  # noqa: E402,F401
from harness import oracles as O  # noqa: E402
from harness.c07 import admits  # noqa: E402
from harness.stubeval import StubError, parse_stub  # noqa: E402
from monkeytype.typing import make_typed_dict  # noqa: E402
from vfix import classes as K  # noqa: E402

NoneType = type(None)
fails = []


def ok(cond, what):
    if not cond:
        fails.append(what)


TD = make_typed_dict
# ---- conforms: value / type pairs as in tests/test_typing.py::TestGetType
for v, t, want in [
    (1, int, True), ("a", str, True), (None, NoneType, True), (True, int, True), (1, str, False),
    ([1, "a"], List[Union[int, str]], True), ([1, "a"], List[int], False), ([], List[Any], True),
    ({1, 2}, Set[int], True), ((1, "a"), Tuple[int, str], True), ((1,), Tuple[int, str], False), ((), Tuple[()], True),
    ((1, 2, 3), Tuple[int, ...], True), ({"a": 1}, Dict[str, int], True), ({"a": 1}, Dict[int, int], False),
    (defaultdict(int, a=1), DefaultDict[str, int], True), ({"a": 1}, DefaultDict[str, int], False),
    ({"a": 1, "b": "x"}, TD(required_fields={"a": int, "b": str}), True),
    ({"a": 1}, TD(required_fields={"a": int, "b": str}), False),
    ({"a": 1}, TD(required_fields={"a": int}, optional_fields={"b": str}), True),
    ({"a": 1, "c": 2}, TD(required_fields={"a": int}, optional_fields={"b": str}), False),
    (K.B(), K.A, True), (K.A(), K.B, False), (K.A, Type[K.A], True), (K.B, Type[K.A], True), (K.A(), Type[K.A], False),
    (len, Callable, True), (K.plain_function, Callable, True), (1, Callable, False),
    (K.gen_function(), Iterator[Any], True), (None, Optional[int], True), ("s", Optional[int], False), (object(), Any, True),
]:
    ok(O.conforms(v, t) == want, f"conforms({v!r}, {O.show_type(t)}) should be {want}")

# ---- struct_eq never trusts ==
a, b = TD(required_fields={"a": int}), TD(required_fields={"a": int})
ok(a is not b and O.struct_eq(a, b), "structurally equal anonymous TypedDicts")
ok(not O.struct_eq(TD(required_fields={"a": int}), TD(optional_fields={"a": int})), "required vs optional must differ")
ok(not O.struct_eq(Union[int, str], Union[str, int]) and O.struct_eq(Union[int, str], Union[str, int], True), "union order")
ok(O.struct_eq(Tuple[()], Tuple[()]) and not O.struct_eq(Tuple[()], Tuple[int]) and not O.struct_eq(Tuple[int, ...], Tuple[int]), "tuples")
ok(not O.struct_eq(List[int], Set[int]) and not O.struct_eq(Dict[str, int], DefaultDict[str, int]), "container kinds")
ok(not O.struct_eq(K.A, K.B) and O.struct_eq(Type[K.A], Type[K.A]) and not O.struct_eq(Iterator[int], Generator[int, None, None]), "classes / generics")

# ---- witnessed (tightness)
ok(O.witnessed(Union[int, str], [1, "a"]) is None, "both alternatives inhabited")
ok(O.witnessed(Union[int, str], [1]) is not None, "str not inhabited")
ok(O.witnessed(List[Any], [[]]) is None and O.witnessed(List[Any], [[1]]) is not None, "Any only for empty containers")
ok(O.witnessed(List[Union[Any, NoneType]], [[], [None]]) is None, "Any alternative justified by an empty list at the slot")
ok(O.witnessed(Union[Dict[Any, Any], Dict[int, str]], [{}, {0: "s"}]) is None, "two alternatives of one kind, each witnessed by a subset")
ok(O.witnessed(K.A, [K.B()]) is not None, "class names must be the exact runtime class")
ok(O.witnessed(TD(required_fields={"a": int, "b": str}), [{"a": 1}, {"a": 1, "b": "s"}]) is not None, "required key absent in an observed dict")
ok(O.witnessed(TD(required_fields={"a": int}, optional_fields={"b": str}), [{"a": 1}, {"a": 1, "b": "s"}]) is None, "optional key")
ok(O.witnessed(TD(required_fields={"a": int}, optional_fields={"b": str}), [{"a": 1, "b": "s"}]) is not None, "optional although always present")

# ---- admits (C07), vectors from tests/test_typing.py rewriter tests
ok(admits(Set[int], Union[Set[Any], Set[int]]), "RemoveEmptyContainers example is not narrowing")
ok(not admits(K.A, Union[K.A, List[Any]]), "dropping an empty list next to a class is narrowing")
ok(admits(Dict[str, Union[int, str]], Union[Dict[str, int], Dict[str, str]]), "RewriteConfigDict widens")
ok(admits(Tuple[int, ...], Union[Tuple[int], Tuple[int, int]]) and admits(Any, Union[int, str]) and admits(K.A, Union[K.B, K.C]), "RewriteLargeUnion widens")
ok(admits(Iterator[int], Generator[int, None, None]) and not admits(List[int], List[Union[int, str]]), "Generator/Iterator, element narrowing")

# ---- stub evaluator on texts of the shape tests/test_stubs.py expects
stub = "\n".join([
    "from mypy_extensions import TypedDict",
    "from typing import List, Optional",
    "from vfix.classes import A",
    "",
    "",
    "class FooTypedDict__RENAME_ME__(TypedDict):",
    "    a: int",
    "",
    "",
    "class FooTypedDict__RENAME_ME__NonTotal(FooTypedDict__RENAME_ME__, total=False):",
    "    b: 'BarTypedDict__RENAME_ME__'",
    "",
    "",
    "class BarTypedDict__RENAME_ME__(TypedDict):",
    "    c: Optional[A]",
    "",
    "",
    "def mod_func(a: List['FooTypedDict__RENAME_ME__NonTotal'], b: int = ...) -> None: ...",
    "",
    "",
    "class Klass:",
    "    @classmethod",
    "    def cmethod(cls, a: A) -> A: ...",
    "    class Nested:",
    "        async def nested_method(self, a: int) -> int: ...",
])
info = parse_stub(stub, "vfix.funcs")
want = List[TD(required_fields={"a": int}, optional_fields={"b": TD(required_fields={"c": Optional[K.A]})})]
ok(O.struct_eq(info.functions["mod_func"][0].annotations["a"], want), "forward references to generated (inherited, non-total) TypedDict classes")
ok(info.functions["mod_func"][0].returns is NoneType and info.functions["mod_func"][0].with_default == {"b"}, "return None, default presence")
ok(info.functions["Klass.cmethod"][0].decorators == ["classmethod"] and info.functions["Klass.Nested.nested_method"][0].is_async, "decorators / async / nesting")
for bad in ("def f(a: Missing): ...", "from typing import List\n\nclass Outer.Inner:\n    pass", "class X(TypedDict):\n    a: int\n\ndef f(a: 'X'): ..."):
    try:
        parse_stub(bad, "vfix.funcs")
        fails.append(f"stub should be rejected: {bad!r}")
    except StubError:
        pass

if fails:
    print("ORACLE SELF-TEST FAILED:")
    for f in fails:
        print("  -", f)
    sys.exit(1)
print("oracle self-test ok")
