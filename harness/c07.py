"""C07 -- shipped rewriters never narrow, never crash, and fire only on their trigger.

Symbolic: the type (tape-decoded over the type grammar) or a collection of values whose
inferred type is rewritten; the rewriter selector (each shipped, default chain, ordered pairs);
RewriteLargeUnion.max_union_len as an unconstrained solver integer; k for inferred types.
"""
from __future__ import annotations

from harness.common import ASSUME, FAIL, PASS, check, tape_harness  # noqa: F401
from harness import oracles as O
from harness.types import ALPHABETS, MEMBERS, TG_DEEP, TG_FULL, TG_QUICK, TG_UNION, TGrammar, build_type, build_union_type
from vfix import classes as K_
from harness.values import G_MEDIUM, G_QUICK, G_SMALL, G_TINY, Grammar, build_value, show

import monkeytype.typing as MT
from monkeytype.typing import (DEFAULT_REWRITER, ChainedRewriter, NoOpRewriter, RemoveEmptyContainers, RewriteConfigDict,
                               RewriteGenerator, RewriteLargeUnion, RewriteMostSpecificCommonBase, get_type, shrink_types)

FUNCTIONS = [
    "monkeytype.typing.GenericTypeRewriter.rewrite / _rewrite_container / rewrite_* dispatch",
    "monkeytype.typing.RemoveEmptyContainers._is_empty / rewrite_Union",
    "monkeytype.typing.RewriteConfigDict.rewrite_Union",
    "monkeytype.typing.RewriteLargeUnion._rewrite_to_tuple / rewrite_Union",
    "monkeytype.typing.RewriteMostSpecificCommonBase._compute_bases / _merge_common_bases / rewrite_Union",
    "monkeytype.typing.RewriteGenerator.rewrite_Generator",
    "monkeytype.typing.NoOpRewriter.rewrite",
    "monkeytype.typing.ChainedRewriter.rewrite",
    "monkeytype.typing.DEFAULT_REWRITER",
]
SINGLE = ("RemoveEmptyContainers", "RewriteConfigDict", "RewriteLargeUnion", "RewriteMostSpecificCommonBase", "RewriteGenerator",
          "NoOpRewriter", "DEFAULT_REWRITER")


def make_rewriter(name, n):
    if name == "RewriteLargeUnion":
        return RewriteLargeUnion(n)
    if name == "DEFAULT_REWRITER":
        return DEFAULT_REWRITER
    return getattr(MT, name)()


# ---------------------------------------------------------------- documented triggers
def _is_empty_container(t):
    a = getattr(t, "__args__", None)
    return O.is_generic(t) and not O.is_union(t) and bool(a) and all(x is MT.Any for x in a)


def _kind(t):
    return O.gname(t) if O.is_generic(t) and not O.is_union(t) else None


def trigger(name, t, n) -> bool:
    """Is the documented trigger of rewriter `name` present anywhere in type t?"""
    if name == "NoOpRewriter":
        return False
    if name == "DEFAULT_REWRITER":
        return any(trigger(x, t, 5) for x in ("RemoveEmptyContainers", "RewriteConfigDict", "RewriteLargeUnion", "RewriteGenerator"))
    for _path, node in O.walk(t):
        if node is MT.Any or node is None or node is Ellipsis:
            continue
        if name == "RewriteGenerator":
            if O.is_generic(node) and not O.is_union(node) and O.gname(node) == "Generator":
                a = O.args_of(node)
                if a[1] is type(None) and a[2] is type(None):
                    return True
            continue
        if not O.is_union(node):
            continue
        ms = list(node.__args__)
        if name == "RemoveEmptyContainers":
            nonempty_kinds = {_kind(m) for m in ms if not _is_empty_container(m)}
            if any(_is_empty_container(m) and _kind(m) in nonempty_kinds for m in ms):
                return True
        elif name == "RewriteConfigDict":
            if all(_kind(m) == "Dict" and len(O.args_of(m) or ()) == 2 for m in ms):
                k0 = O.args_of(ms[0])[0]
                if all(O.struct_eq(O.args_of(m)[0], k0) for m in ms):
                    return True
        elif name == "RewriteLargeUnion":
            if len(ms) > n:
                return True
        elif name == "RewriteMostSpecificCommonBase":
            if all(isinstance(m, type) and not O.is_typed_dict(m) for m in ms):
                return True
    return False


def admits(t_out, t_in):
    """Structural 'admits every value' with MonkeyType's encoding of emptiness: C[Any, ...] is the
    type of an *empty* container, which every C[...] admits."""
    if O.admits_all(t_out, t_in):
        return True
    if O.is_union(t_in):
        return all(admits(t_out, m) for m in t_in.__args__)
    if O.is_union(t_out):
        return any(admits(m, t_in) for m in t_out.__args__)
    if _is_empty_container(t_in) and _kind(t_in) in ("List", "Set", "Dict", "DefaultDict") and _kind(t_out) == _kind(t_in):
        return True
    if t_out is dict and (O.is_anon_td(t_in) or _kind(t_in) in ("Dict", "DefaultDict")):
        return True  # the class dict admits every dict value
    if O.is_anon_td(t_in) and O.is_anon_td(t_out):
        ri, oi = O.td_fields(t_in)
        ro, oo = O.td_fields(t_out)
        if not set(ro) <= set(ri):
            return False
        for k, ft in {**ri, **oi}.items():
            tgt = ro.get(k, oo.get(k))
            if tgt is None or not admits(tgt, ft):
                return False
        return True
    if _kind(t_in) == "Generator" and _kind(t_out) in ("Iterator", "Generator"):
        # Generator[Y, S, R] -> Iterator[Y'] (RewriteGenerator, when S and R are None) or Generator[Y', S', R']: judged slot by
        # slot with THIS relation (so that an empty container dropped inside the yield type is read the same way as elsewhere)
        yi, si, ri = O.args_of(t_in)
        ao = O.args_of(t_out)
        if _kind(t_out) == "Iterator":
            return si is type(None) and ri is type(None) and len(ao) == 1 and admits(ao[0], yi)
        return len(ao) == 3 and admits(ao[0], yi) and admits(ao[1], si) and admits(ao[2], ri)
    if O.is_generic(t_in) and O.is_generic(t_out) and _kind(t_in) == _kind(t_out) and _kind(t_in) not in (None, "Type", "Callable"):
        ai, ao = O.args_of(t_in), O.args_of(t_out)
        if ai is not None and ao is not None and len(ai) == len(ao) and not any(x is Ellipsis for x in tuple(ai) + tuple(ao)):
            return all(admits(x, y) for x, y in zip(ao, ai))
    return False


# ---------------------------------------------------------------- harness bodies
def _decode_rw(t, pairs):
    i = t.take(len(SINGLE))
    if not pairs:
        return (SINGLE[i],)
    j = t.take(len(SINGLE))
    return (SINGLE[i], SINGLE[j])


def _apply(names, n, typ):
    rws = [make_rewriter(x, n) for x in names]
    rw = rws[0] if len(rws) == 1 else ChainedRewriter(rws)
    return rw.rewrite(typ)


def type_body(t, n, g, pairs=False):
    names = _decode_rw(t, pairs)
    typ = build_type(t, g) if isinstance(g, TGrammar) else build_union_type(t, *g)
    try:
        out = _apply(names, n, typ)
    except Exception as e:  # noqa: BLE001 - "rewriting completes without error"
        return check(False, lambda: f"{'+'.join(names)}(n={_i(n)}).rewrite({O.show_type(typ)}) raised {type(e).__name__}: {e}")
    if not admits(out, typ):
        return check(False, lambda: f"{'+'.join(names)}(n={_i(n)}) narrowed {O.show_type(typ)} to {O.show_type(out)}")
    if not any(trigger(x, typ, n) for x in names):
        return check(O.struct_eq(out, typ, unordered_unions=True),
                     lambda: f"{'+'.join(names)}(n={_i(n)}) changed {O.show_type(typ)} to {O.show_type(out)} although its trigger is absent")
    return check(True)


def inferred_body(ta, tb, n, k, g: Grammar):
    """Types inferred from values: after rewriting, every witness value must still be a member."""
    ASSUME(k >= 0)
    name = SINGLE[ta.take(len(SINGLE))]
    vals = [build_value(ta, g), build_value(tb, g)]
    typ = shrink_types([get_type(v, k) for v in vals], k)
    try:
        out = _apply((name,), n, typ)
    except Exception as e:  # noqa: BLE001
        return check(False, lambda: f"{name}(n={_i(n)}).rewrite({O.show_type(typ)}) raised {type(e).__name__}: {e}")
    for v in vals:
        if not O.conforms(v, out):
            return check(False, lambda: f"{name}(n={_i(n)}): {O.show_type(typ)} -> {O.show_type(out)} no longer admits the observed value {show(v)}")
    return check(True)


class _R:
    pass


class _Q:
    pass


# eight classes with one common base, six with another, interleaved, plus atoms: consecutive unions of the stream have
# DIFFERENT most specific common bases (_R, _Q, or none)
_STREAM_R = tuple(type(f"R{i}", (_R,), {"__module__": __name__}) for i in range(8))
_STREAM_Q = tuple(type(f"Q{i}", (_Q,), {"__module__": __name__}) for i in range(6))
_STREAM_POOL = tuple(x for pair in zip(_STREAM_R, _STREAM_Q + (int, str)) for x in pair)


def stream_body(t):
    """ONE long-lived rewriter (the DEFAULT_REWRITER singleton, or one reused RewriteLargeUnion) is handed a stream of a few
    hundred distinct large unions that nobody else keeps alive: whatever it memoises per union (by identity, by address)
    must not be served to a different union later."""
    import itertools
    from typing import Union as _U

    pool = _STREAM_POOL
    rw = (DEFAULT_REWRITER, RewriteLargeUnion(5), RewriteMostSpecificCommonBase())[t.take(3)]
    size = 6 if t.take(2) == 0 else 3
    # typing memoises Union[...] in a bounded LRU, so a union object normally outlives ~128 later ones; built past that memo
    # (what eviction amounts to) the object dies with its last reference and its address is free for the next one at once
    import typing as _typing

    fresh = t.take(2) == 1
    mk = (lambda ms: _typing.Union._getitem(_typing.Union, ms)) if fresh else (lambda ms: _U[ms])
    from engine.envmodel import adversarial_id

    count = 60 if fresh else 200
    with adversarial_id():
        streams = [itertools.cycle(itertools.combinations(_STREAM_R, size)), itertools.cycle(itertools.combinations(_STREAM_Q, size)),
                   itertools.islice(itertools.combinations(pool, size), 0, None, 7)]
        for i in range(count):
            members = next(streams[i % 3])  # common base _R, then _Q, then (mostly) none, ...
            typ = mk(members)
            try:
                out = rw.rewrite(typ)
            except Exception as e:  # noqa: BLE001
                return check(False, lambda: f"union #{i} of the stream: {type(rw).__name__}.rewrite({O.show_type(typ)}) raised {type(e).__name__}: {e}")
            if not admits(out, typ):
                return check(False, lambda: f"union #{i} of a stream through one {type(rw).__name__}: {O.show_type(typ)} was rewritten to {O.show_type(out)}, which does not admit it")
            del typ, out
    return check(True)


tape_harness("stream", [("t", 3)], {}, stream_body, globals())


def _i(x):
    try:
        return int(x)
    except Exception:  # noqa: BLE001
        return x


TGS = {"quick": TG_QUICK, "union": TG_UNION, "full": TG_FULL, "deep": TG_DEEP,
       "sub11": (11, ("bare", "List")), "sub10": (10, ("bare", "List", "TDField")), "sub14": (14,), "sub17": (17, ("bare", "DictValue")), "sub8": (8, ("bare",)),
       "sub24": (24, ("bare",)),
       "mix9": (9, ("bare",), "MEMBERS2", True), "mix13": (13, ("bare", "List"), "MEMBERS2", True),
       "nest8": (8, ("bare",), "MEMBERS3", True), "nest4": (4, ("bare",), "MEMBERS3", True),
       "td7": (7, ("bare", "GeneratorYield"), "MEMBERS4", True)}
VGS = {"tiny": G_TINY, "small": G_SMALL, "quick": G_QUICK, "medium": G_MEDIUM}
TAPE_N = {"quick": 24, "union": 26, "full": 30, "deep": 40, "sub10": 13, "sub11": 14, "sub14": 17, "sub17": 20, "sub8": 11, "sub24": 27, "mix9": 13, "mix13": 17, "nest8": 13, "nest4": 9, "td7": 12}
REG = {}
for _gn, _g in TGS.items():
    for _pairs in (False, True):
        _name = f"types_{_gn}" + ("_pairs" if _pairs else "")

        def _mk(g=_g, pairs=_pairs):
            def body(t, n):
                return type_body(t, n, g, pairs)
            body.__doc__ = "rewrite a grammar type"
            return body

        tape_harness(_name, [("t", TAPE_N[_gn])], {"n": "int"}, _mk(), globals())
        REG[_name] = ("types", _g, _pairs)
for _gn, _g in VGS.items():
    _name = f"inferred_{_gn}"

    def _mk2(g=_g):
        def body(ta, tb, n, k):
            return inferred_body(ta, tb, n, k, g)
        body.__doc__ = "rewrite an inferred type, witnesses must survive"
        return body

    tape_harness(_name, [("a", 8), ("b", 7)], {"n": "int", "k": "int"}, _mk2(), globals())
    REG[_name] = ("inferred", _g, False)


def shards(name, prefix=3):
    from engine.verdicts import enumerate_prefixes

    if name == "stream":
        return [{"t0": i, "t1": j, "t2": f} for i in range(3) for j in range(2) for f in range(2)]
    kind, g, pairs = REG[name]
    if kind == "types":
        pres = enumerate_prefixes(lambda t: type_body(t, 3, g, pairs), prefix)
        return [{f"t{j}": v for j, v in enumerate(p)} for p in pres]
    pa = enumerate_prefixes(lambda t: (t.take(len(SINGLE)), build_value(t, g)), prefix)
    pb = enumerate_prefixes(lambda t: build_value(t, g), max(1, prefix - 1))
    return [dict({f"a{j}": v for j, v in enumerate(x)}, **{f"b{j}": v for j, v in enumerate(y)}) for x in pa for y in pb]


def describe(name, args):
    from engine.verdicts import Tape

    if name == "stream":
        return dict(args)
    kind, g, pairs = REG[name]
    n = args.get("n")
    if kind == "types":
        t = Tape([args[f"t{i}"] for i in range(len([k for k in args if k[0] == "t" and k[1:].isdigit()]))])
        names = _decode_rw(t, pairs)
        typ = build_type(t, g) if isinstance(g, TGrammar) else build_union_type(t, *g)
        try:
            out = O.show_type(_apply(names, n, typ))
        except Exception as e:  # noqa: BLE001
            out = f"raised {type(e).__name__}"
        return {"rewriter": "+".join(names), "max_union_len": n, "type": O.show_type(typ), "rewritten": out}
    ta = Tape([args[f"a{i}"] for i in range(8)])
    tb = Tape([args[f"b{i}"] for i in range(7)])
    name_rw = SINGLE[ta.take(len(SINGLE))]
    vals = [build_value(ta, g), build_value(tb, g)]
    typ = shrink_types([get_type(v, args["k"]) for v in vals], args["k"])
    return {"rewriter": name_rw, "max_union_len": n, "k": args["k"], "values": [show(v) for v in vals], "inferred": O.show_type(typ)}
