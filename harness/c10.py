"""C10 -- stale or undecodable stored traces are skipped, never fatal.

Symbolic: a sequence of row-kind selectors (valid rows of two functions and every kind of stale
row), the -v flag, the command path (print_stub_handler with a Namespace; cli.main with argv).
Real code: cli.main / print_stub_handler / get_stub / complain_about_no_traces,
CallTraceRow.to_trace, get_func_in_module, get_name_in_module, type_from_dict,
update_signature_args, the stub pipeline.
"""
from __future__ import annotations

import argparse
import json

from harness.common import ASSUME, FAIL, PASS, check, tape_harness  # noqa: F401
from vfix import cfg as CFG

from monkeytype import cli
from monkeytype.encoding import CallTraceRow
from monkeytype.stubs import ExistingAnnotationStrategy

FUNCTIONS = [
    "monkeytype.cli.main (argument parsing, config lookup, handler dispatch)",
    "monkeytype.cli.print_stub_handler / get_stub / complain_about_no_traces",
    "monkeytype.encoding.CallTraceRow.to_trace / arg_types_from_json / type_from_json / type_from_dict / maybe_decode_type",
    "monkeytype.util.get_func_in_module / get_name_in_module",
    "monkeytype.stubs.build_module_stubs_from_traces / update_signature_args (unknown parameter names ignored)",
]


class Sink:
    def __init__(self):
        self.b = []

    def write(self, x):
        self.b.append(x)

    def flush(self):
        pass

    def getvalue(self):
        return "".join(self.b)

    def __deepcopy__(self, memo):
        return self

    def __ch_deep_realize__(self, memo):
        return self


def T(m, q):
    return json.dumps({"module": m, "qualname": q})


def A(**kw):
    return json.dumps({k: {"module": m, "qualname": q} for k, (m, q) in kw.items()}, sort_keys=True)


M = "vfix.funcs"
INT = ("builtins", "int")
# (row, decodable?)
KINDS = (
    ("valid f", CallTraceRow(M, "mod_func", A(a=INT, b=("builtins", "str")), T(*INT), None), True),
    ("valid g (method)", CallTraceRow(M, "Klass.method", A(a=("vfix.classes", "A")), T("builtins", "NoneType"), None), True),
    ("valid generator", CallTraceRow(M, "gen_func", A(n=INT), None, T(*INT)), True),
    ("unknown parameter name", CallTraceRow(M, "mod_func", A(zzz=INT), None, None), True),
    ("module removed", CallTraceRow("vfix.gone", "f", "{}", None, None), False),
    ("submodule removed", CallTraceRow("vfix.pkg.gone", "f", "{}", None, None), False),
    ("function removed", CallTraceRow(M, "nofunc", "{}", None, None), False),
    ("method removed", CallTraceRow(M, "Klass.nomethod", "{}", None, None), False),
    ("function now a class", CallTraceRow(M, "Klass", "{}", None, None), False),
    ("function now a non-callable", CallTraceRow(M, "NOT_A_FUNCTION", "{}", None, None), False),
    ("function now a settable property", CallTraceRow(M, "Klass.settable", "{}", None, None), False),
    ("argument class removed", CallTraceRow(M, "mod_func", A(a=("vfix.classes", "Gone")), None, None), False),
    ("return class removed", CallTraceRow(M, "mod_func", A(a=INT), T("vfix.classes", "Gone"), None), False),
    ("yield class removed", CallTraceRow(M, "gen_func", A(n=INT), None, T("vfix.gone", "X")), False),
    ("class name bound to a non-type", CallTraceRow(M, "mod_func", A(a=(M, "NOT_A_FUNCTION")), None, None), False),
    ("class name bound to a function", CallTraceRow(M, "mod_func", A(a=(M, "no_args")), None, None), False),
    ("function defined in a local scope", CallTraceRow(M, "outer_closure.<locals>.inner", "{}", None, None), False),
    ("method removed, name now resolves to object's slot wrapper", CallTraceRow(M, "Base.__eq__", "{}", None, None), False),
    ("method now a functools.cached_property", CallTraceRow(M, "WithCached.cached", "{}", None, None), False),
    ("function now a builtin type's method descriptor", CallTraceRow("builtins", "str.upper", "{}", None, None), False),
    ("module removed whose name is a textual prefix of the live module's", CallTraceRow("vfix.func", "f", "{}", None, None), False),
    ("method now a custom non-data descriptor", CallTraceRow(M, "WithLazy.lazy", "{}", None, None), False),
    ("module two levels below a removed package", CallTraceRow("vfix.gone.sub.mod", "f", "{}", None, None), False),
    ("argument class's module removed, its name a textual prefix of a live class module's", CallTraceRow(M, "mod_func", A(a=("vfix.class", "A")), None, None), False),
    ("function now a functools.partial object", CallTraceRow(M, "PARTIAL", "{}", None, None), False),
    ("function now an instance with __call__", CallTraceRow(M, "CALLABLE_OBJ", "{}", None, None), False),
    ("element class removed inside a generic",
     CallTraceRow(M, "mod_func", json.dumps({"a": {"module": "typing", "qualname": "List", "elem_types": [{"module": "vfix.classes", "qualname": "Gone"}]}}), None, None), False),
)
QUICK_KINDS = (0, 1, 3, 4, 6, 8, 10, 11, 14, 16)


def _run(rows, verbose, via_main):
    out, err = Sink(), Sink()
    CFG.CONFIG.store.rows = list(rows)
    CFG.CONFIG.k = 0
    if via_main:
        argv = (["-v"] if verbose else []) + ["-c", "vfix.cfg:CONFIG", "stub", M]
        rc = cli.main(argv, out, err)
    else:
        args = argparse.Namespace(module_path=(M, None), limit=2000, verbose=verbose, config=CFG.CONFIG, disable_type_rewriting=False,
                                  existing_annotation_strategy=ExistingAnnotationStrategy.REPLICATE, sample_count=False, diff=False)
        cli.print_stub_handler(args, out, err)
        rc = 0
    return rc, out.getvalue(), err.getvalue()


def stale_body(t, verbose, n_rows=3, kinds=None, via_main=False):
    kinds = kinds if kinds is not None else tuple(range(len(KINDS)))
    sel = [kinds[t.take(len(kinds))] for _ in range(n_rows)]
    rows = [KINDS[i][1] for i in sel]
    good = [KINDS[i][1] for i in sel if KINDS[i][2]]
    nbad = len(rows) - len(good)
    v = bool(verbose)
    try:
        rc, out, err = _run(rows, v, via_main)
    except Exception as e:  # noqa: BLE001
        return check(False, lambda: f"rows {[KINDS[i][0] for i in sel]} (verbose={v}): command failed with {type(e).__name__}: {e}")
    rc2, want_out, want_err = _run(good, v, via_main)
    names = [KINDS[i][0] for i in sel]
    if rc != 0:
        return check(False, lambda: f"rows {names}: exit status {rc}")
    if out != want_out:
        return check(False, lambda: f"rows {names}: stdout differs from what the decodable rows alone give:\n{out!r}\nvs\n{want_out!r}")
    if v:
        n = err.count("WARNING: Failed decoding trace")
        if n != nbad:
            return check(False, lambda: f"rows {names} with -v: {n} warnings for {nbad} undecodable rows: {err!r}")
    else:
        if nbad and not err.startswith(f"{nbad} traces failed to decode"):
            return check(False, lambda: f"rows {names}: stderr does not report {nbad} skipped traces: {err!r}")
        if not nbad and "failed to decode" in err:
            return check(False, lambda: f"rows {names}: spurious decode-failure report: {err!r}")
    if not good:
        if "No traces found" not in err or out.strip():
            return check(False, lambda: f"rows {names}: nothing decodable but no 'No traces found' message: out={out!r} err={err!r}")
    elif "No traces found" in err:
        return check(False, lambda: f"rows {names}: 'No traces found' although {len(good)} rows decode")
    return check(True)


def apply_nothing_body(t, verbose):
    """`monkeytype apply <module>` when nothing decodes (all rows stale), for a module that still exists and for one that
    has been removed: no traceback, the skipped count on stderr, 'No traces found', exit status 0, no file touched."""
    stale = [i for i, k in enumerate(KINDS) if not k[2]]
    n = 1 + t.take(2)
    sel = [stale[t.take(len(stale))] for _ in range(n)]
    target = (M, "vfix.gone")[t.take(2)]
    rows = [KINDS[i][1] for i in sel]
    if target != M:
        rows = [CallTraceRow(target, r.qualname, r.arg_types, r.return_type, r.yield_type) for r in rows]
    out, err = Sink(), Sink()
    CFG.CONFIG.store.rows = list(rows)
    CFG.CONFIG.k = 0
    v = bool(verbose)
    import vfix.funcs as _F
    before = open(_F.__file__).read()
    try:
        rc = cli.main((["-v"] if v else []) + ["-c", "vfix.cfg:CONFIG", "apply", target], out, err)
    except Exception as e:  # noqa: BLE001
        return check(False, lambda: f"apply {target} with rows {[KINDS[i][0] for i in sel]}: command failed with {type(e).__name__}: {e}")
    if open(_F.__file__).read() != before:
        return check(False, "apply rewrote the source file although nothing decoded")
    e = err.getvalue()
    ok = rc == 0 and "No traces found" in e and not out.getvalue().strip()
    if v:
        ok = ok and e.count("WARNING: Failed decoding trace") == n
    else:
        ok = ok and e.startswith(f"{n} traces failed to decode")
    return check(ok, lambda: f"apply {target} with rows {[KINDS[i][0] for i in sel]} (verbose={v}): exit {rc}, stdout {out.getvalue()!r}, stderr {e!r}")


tape_harness("apply_nothing", [("t", 4)], {"verbose": "bool"}, apply_nothing_body, globals())
tape_harness("stale_quick", [("t", 3)], {"verbose": "bool"}, lambda t, verbose: stale_body(t, verbose, 3, QUICK_KINDS), globals())
tape_harness("stale_full3", [("t", 3)], {"verbose": "bool"}, lambda t, verbose: stale_body(t, verbose, 3), globals())
tape_harness("stale_full4", [("t", 4)], {"verbose": "bool"}, lambda t, verbose: stale_body(t, verbose, 4), globals())
tape_harness("stale_main2", [("t", 2)], {"verbose": "bool"}, lambda t, verbose: stale_body(t, verbose, 2, None, True), globals())
tape_harness("stale_main1", [("t", 1)], {"verbose": "bool"}, lambda t, verbose: stale_body(t, verbose, 1, None, True), globals())
_CFG = {"stale_quick": (3, QUICK_KINDS), "stale_full3": (3, None), "stale_full4": (4, None), "stale_main2": (2, None), "stale_main1": (1, None)}


def shards(name, prefix=2):
    if name == "apply_nothing":
        from engine.verdicts import enumerate_prefixes

        return [{f"t{j}": v for j, v in enumerate(p)} for p in enumerate_prefixes(lambda t: apply_nothing_body(t, False), 2)]
    n, kinds = _CFG[name]
    kinds = kinds if kinds is not None else tuple(range(len(KINDS)))
    p = min(prefix, n)
    out = [{}]
    for j in range(p):
        out = [dict(d, **{f"t{j}": i}) for d in out for i in range(len(kinds))]
    return out


def describe(name, args):
    if name == "apply_nothing":
        return dict(args)
    n, kinds = _CFG[name]
    kinds = kinds if kinds is not None else tuple(range(len(KINDS)))
    sel = [kinds[min(max(args.get(f"t{j}", 0), 0), len(kinds) - 1)] for j in range(n)]
    return {"rows": [KINDS[i][0] for i in sel], "verbose": args.get("verbose"), "via": "cli.main" if "main" in name else "print_stub_handler"}
