"""Reference oracles (plain Python, part of the trusted base; unit-tested by selftest.py against
the repository's own test vectors).

They use only `typing` introspection -- never monkeytype's own helpers -- so that a change to
monkeytype.compat / monkeytype.typing cannot silently change the oracle with the code.
"""
from __future__ import annotations

import collections
import types
import typing
from typing import Any, Union

NoneType = type(None)

CALLABLE_TYPES = (
    types.FunctionType,
    types.LambdaType,
    types.MethodType,
    types.BuiltinMethodType,
    types.BuiltinFunctionType,
)


# ---------------------------------------------------------------- introspection
def origin(t):
    return getattr(t, "__origin__", None)


def is_union(t) -> bool:
    return t is Union or origin(t) is Union


def is_typed_dict(t) -> bool:
    return isinstance(t, type) and issubclass(t, dict) and hasattr(t, "__annotations__") and hasattr(t, "__total__")


def is_anon_td(t) -> bool:
    return is_typed_dict(t) and t.__name__ == "DUMMY_NAME"


def td_fields(t):
    """(required, optional) of an anonymous MonkeyType TypedDict."""
    ann = t.__annotations__
    return ann["required_fields"].__annotations__, ann["optional_fields"].__annotations__


def is_generic(t) -> bool:
    return origin(t) is not None


def gname(t) -> str:
    """Canonical name of a generic: List, Set, Dict, DefaultDict, Tuple, Type, Callable, Iterator, Generator, ..."""
    n = getattr(t, "_name", None)
    if n:
        return n
    o = origin(t)
    return getattr(o, "_name", None) or getattr(o, "__name__", repr(o))


def args_of(t):
    a = getattr(t, "__args__", None)
    if a is None:
        return None
    if a == ((),):
        return ()
    return a


# ---------------------------------------------------------------- membership
def conforms(v, t) -> bool:
    """PEP 484 membership of a runtime value in a type (over the grammar MonkeyType emits)."""
    if t is Any:
        return True
    if is_union(t):
        return any(conforms(v, a) for a in t.__args__)
    if is_anon_td(t):
        if not isinstance(v, dict):
            return False
        req, opt = td_fields(t)
        for k in req:
            if k not in v:
                return False
        for k, x in v.items():
            if k in req:
                if not conforms(x, req[k]):
                    return False
            elif k in opt:
                if not conforms(x, opt[k]):
                    return False
            else:
                return False
        return True
    if is_typed_dict(t):
        if not isinstance(v, dict):
            return False
        ann = typing.get_type_hints(t) if False else t.__annotations__
        total = t.__total__
        for k, x in v.items():
            if k not in ann or not conforms(x, ann[k]):
                return False
        if total:
            req_keys = getattr(t, "__required_keys__", None)
            for k in (req_keys if req_keys is not None else ann):
                if k not in v:
                    return False
        return True
    if t is typing.Callable:
        return callable(v)
    if is_generic(t):
        n = gname(t)
        a = args_of(t)
        if n == "Callable":
            return callable(v)
        if n == "Type":
            return isinstance(v, type) and (a is None or a[0] is Any or (isinstance(a[0], type) and issubclass(v, a[0])))
        if n in ("Iterator", "Iterable"):
            return hasattr(v, "__next__") or (n == "Iterable" and hasattr(v, "__iter__"))
        if n == "Generator":
            return isinstance(v, types.GeneratorType)
        if a is None:
            a = ()
        if n == "List":
            return isinstance(v, list) and (not a or all(conforms(e, a[0]) for e in v))
        if n == "Set":
            return isinstance(v, set) and (not a or all(conforms(e, a[0]) for e in v))
        if n == "DefaultDict":
            return isinstance(v, collections.defaultdict) and all(conforms(k, a[0]) and conforms(x, a[1]) for k, x in v.items())
        if n == "Dict":
            return isinstance(v, dict) and (not a or all(conforms(k, a[0]) and conforms(x, a[1]) for k, x in v.items()))
        if n == "Tuple":
            if not isinstance(v, tuple):
                return False
            if getattr(t, "__args__", None) is None or t is typing.Tuple:
                return True
            if len(a) == 2 and a[1] is Ellipsis:
                return all(conforms(e, a[0]) for e in v)
            return len(a) == len(v) and all(conforms(e, x) for e, x in zip(v, a))
        return False
    if t is None:
        return v is None
    if isinstance(t, type):
        return isinstance(v, t)
    return False


# ---------------------------------------------------------------- structural equality
def struct_eq(t1, t2, unordered_unions: bool = False) -> bool:
    """Structural identity of two types; never uses `==` on types (so the monkey-patched
    TypedDict equality is not trusted).  Union member order matters unless told otherwise."""
    if t1 is t2:
        return True
    if t1 is Any or t2 is Any:
        return False
    if isinstance(t1, typing.ForwardRef) or isinstance(t2, typing.ForwardRef):
        return (
            isinstance(t1, typing.ForwardRef)
            and isinstance(t2, typing.ForwardRef)
            and t1.__forward_arg__ == t2.__forward_arg__
        )
    if is_union(t1) or is_union(t2):
        if not (is_union(t1) and is_union(t2)):
            return False
        a1, a2 = list(t1.__args__), list(t2.__args__)
        if len(a1) != len(a2):
            return False
        if not unordered_unions:
            return all(struct_eq(x, y, unordered_unions) for x, y in zip(a1, a2))
        rest = list(a2)
        for x in a1:
            for i, y in enumerate(rest):
                if struct_eq(x, y, unordered_unions):
                    del rest[i]
                    break
            else:
                return False
        return True
    if is_typed_dict(t1) or is_typed_dict(t2):
        if not (is_typed_dict(t1) and is_typed_dict(t2)):
            return False
        if t1.__name__ != t2.__name__ or getattr(t1, "__total__", True) != getattr(t2, "__total__", True):
            return False
        f1, f2 = t1.__annotations__, t2.__annotations__
        if set(f1) != set(f2):
            return False
        return all(struct_eq(f1[k], f2[k], unordered_unions) for k in f1)
    g1, g2 = is_generic(t1), is_generic(t2)
    if g1 or g2:
        if not (g1 and g2):
            return False
        if gname(t1) != gname(t2) or (origin(t1) or t1) is not (origin(t2) or t2):
            return False
        a1, a2 = args_of(t1), args_of(t2)
        if a1 is None or a2 is None:
            return a1 is None and a2 is None
        if len(a1) != len(a2):
            return False
        for x, y in zip(a1, a2):
            if x is Ellipsis or y is Ellipsis:
                if x is not y:
                    return False
            elif isinstance(x, (list, tuple)) or isinstance(y, (list, tuple)):
                if x != y:
                    return False
            elif not struct_eq(x, y, unordered_unions):
                return False
        return True
    return False  # distinct plain objects (classes compare by identity, handled by `is` above)


def show_type(t) -> str:
    """Deterministic rendering that spells out anonymous TypedDicts."""
    if t is Any:
        return "Any"
    if t is None:
        return "<absent>"
    if t is Ellipsis:
        return "..."
    if is_anon_td(t):
        r, o = td_fields(t)
        return "TD(req={" + ", ".join(f"{k}: {show_type(v)}" for k, v in r.items()) + "}, opt={" + ", ".join(
            f"{k}: {show_type(v)}" for k, v in o.items()) + "})"
    if is_typed_dict(t):
        return f"TypedDict[{t.__name__},total={t.__total__}](" + ", ".join(f"{k}: {show_type(v)}" for k, v in t.__annotations__.items()) + ")"
    if is_union(t):
        return "Union[" + ", ".join(show_type(a) for a in t.__args__) + "]"
    if isinstance(t, typing.ForwardRef):
        return "Ref(" + t.__forward_arg__ + ")"
    if is_generic(t):
        a = args_of(t)
        if a is None or t in (typing.Callable,):
            return gname(t)
        if a == ():
            return gname(t) + "[()]"
        return gname(t) + "[" + ", ".join(show_type(x) for x in a) + "]"
    if isinstance(t, type):
        return t.__qualname__
    return repr(t)


def walk(t, path="$"):
    """Yield (path, node) for every node of a type, including TypedDict field types."""
    yield path, t
    if t is Any or t is None or t is Ellipsis:
        return
    if is_anon_td(t):
        r, o = td_fields(t)
        for k, v in r.items():
            yield from walk(v, f"{path}.req[{k}]")
        for k, v in o.items():
            yield from walk(v, f"{path}.opt[{k}]")
        return
    if is_typed_dict(t):
        for k, v in t.__annotations__.items():
            yield from walk(v, f"{path}.{k}")
        return
    if is_union(t) or is_generic(t):
        a = args_of(t)
        if a:
            for i, x in enumerate(a):
                if isinstance(x, (list, tuple)):
                    for j, y in enumerate(x):
                        yield from walk(y, f"{path}[{i}][{j}]")
                else:
                    yield from walk(x, f"{path}[{i}]")


# ---------------------------------------------------------------- tightness (C05)
def _exact(v, t) -> bool:
    """Does `t` (a non-union alternative) describe exactly the runtime shape of v at the top level?"""
    if is_anon_td(t):
        return type(v) is dict and len(v) > 0 and all(issubclass(type(k), str) for k in v)
    if t is typing.Callable:
        return isinstance(v, CALLABLE_TYPES) and not isinstance(v, type)
    if is_generic(t):
        n = gname(t)
        if n == "Type":
            return isinstance(v, type) and args_of(t)[0] is v
        if n == "Callable":
            return isinstance(v, CALLABLE_TYPES) and not isinstance(v, type)
        if n == "Iterator":
            return isinstance(v, types.GeneratorType)
        return {"List": list, "Set": set, "Dict": dict, "DefaultDict": collections.defaultdict, "Tuple": tuple}.get(n) is type(v)
    if isinstance(t, type):
        return type(v) is t and not isinstance(v, type)
    return False


def _alt_kind(alt):
    if is_anon_td(alt):
        return "dict"
    if alt is typing.Callable:
        return "Callable"
    if is_generic(alt):
        n = gname(alt)
        if n == "Type":
            return ("Type", args_of(alt)[0] if args_of(alt) else None)
        return {"Dict": "dict"}.get(n, n)
    return alt


def witnessed(t, values, path="$", allow_any=False):
    """C05 lock-step walk.  `values` are all the runtime values observed at the position that
    `t` describes.  Returns None when tight, else a description of the first slack found."""
    if t is Any:
        # only acceptable as "element type of an empty container", which the caller checks
        return f"{path}: Any with {len(values)} observed value(s)" if values else None
    alts = list(t.__args__) if is_union(t) else [t]
    for alt in alts:
        if alt is Any:
            if allow_any:
                continue  # an empty container was observed at this slot
            return f"{path}: Any as a union alternative although no empty container was observed here"
        mine = [v for v in values if _exact(v, alt) and conforms(v, alt)]
        unique_kind = sum(1 for a in alts if _alt_kind(a) == _alt_kind(alt)) == 1
        if unique_kind:
            # the only alternative of its kind at this position: it describes EVERY observed value of
            # that kind here (e.g. "required" must hold for all str-keyed dicts, an element type for the
            # elements of all lists), not just the values that happen to conform
            mine = [v for v in values if _exact(v, alt)]
            if is_anon_td(alt):
                # ... including the empty dict and dicts with non-string keys: "a key is required only if EVERY
                # observed dict at that position had it" (inference itself never puts a TypedDict next to them)
                mine = [v for v in values if type(v) is dict]
        if not mine:
            return f"{path}: alternative {show_type(alt)} not inhabited by any observed value"
        # The alternative must be exactly witnessed by SOME non-empty subset of the values it
        # describes (alternatives of one container kind stem from different observed values,
        # e.g. Union[Dict[Any, Any], Dict[int, str]] from {} and {0: 's'}).  A TypedDict
        # alternative merges every str-keyed dict at the position, so it is judged on all of them.
        if unique_kind or is_anon_td(alt) or len(mine) == 1 or len(mine) > 8:
            subsets = [mine]
        else:
            subsets = [[v for i, v in enumerate(mine) if m >> i & 1] for m in range(2 ** len(mine) - 1, 0, -1)]
        first = None
        for sub in subsets:
            r = _witness_inside(alt, sub, path)
            if r is None:
                break
            first = first or r
        else:
            return first
    return None


def _witness_inside(alt, vals, path):
    if is_anon_td(alt):
        req, opt = td_fields(alt)
        for k, ft in req.items():
            if not all(k in v for v in vals):
                return f"{path}: key {k!r} required but absent in an observed dict"
            r = witnessed(ft, [v[k] for v in vals], f"{path}.req[{k}]")
            if r:
                return r
        for k, ft in opt.items():
            if all(k in v for v in vals):
                return f"{path}: key {k!r} optional but present in every observed dict"
            have = [v[k] for v in vals if k in v]
            if not have:
                return f"{path}: optional key {k!r} never observed"
            r = witnessed(ft, have, f"{path}.opt[{k}]")
            if r:
                return r
        return None
    if is_generic(alt) and alt is not typing.Callable:
        n = gname(alt)
        a = args_of(alt)
        if n in ("Type", "Callable", "Iterator"):
            return None  # atoms: contents are unobservable (interpretation recorded in DESIGN.md)
        if n in ("List", "Set"):
            return _slot(a[0], [list(v) for v in vals], f"{path}[0]")
        if n in ("Dict", "DefaultDict"):
            return _slot(a[0], [list(v.keys()) for v in vals], f"{path}[0]") or _slot(a[1], [list(v.values()) for v in vals], f"{path}[1]")
        if n == "Tuple":
            if len(a) == 2 and a[1] is Ellipsis:
                return f"{path}: homogeneous Tuple[T, ...] is never inferred before rewriting"
            for i, et in enumerate(a):
                r = witnessed(et, [v[i] for v in vals if len(v) == len(a)], f"{path}[{i}]")
                if r:
                    return r
            return None
    return None


def _slot(t, per_container, path):
    """An element/key/value slot shared by the containers `per_container` (one list of
    elements per observed container).  `Any` is justified exactly by an empty container."""
    elems = [e for c in per_container for e in c]
    any_empty = any(len(c) == 0 for c in per_container)
    if t is Any:
        if elems:
            return f"{path}: Any although {len(elems)} element(s) were observed"
        return None if any_empty else f"{path}: Any without an empty container"
    if not elems:
        return f"{path}: {show_type(t)} although every container here was empty"
    return witnessed(t, elems, path, allow_any=any_empty)


# ---------------------------------------------------------------- structural subtyping (C07)
def admits_all(t_out, t_in) -> bool:
    """Every value of t_in is a value of t_out (sound, on MonkeyType's type grammar)."""
    if t_out is Any:
        return True
    if t_in is Any:
        return False
    if is_union(t_in):
        return all(admits_all(t_out, m) for m in t_in.__args__)
    if is_union(t_out):
        return any(admits_all(m, t_in) for m in t_out.__args__)
    if struct_eq(t_out, t_in, unordered_unions=True):
        return True
    if is_anon_td(t_in):
        r_in, o_in = td_fields(t_in)
        if is_anon_td(t_out):
            r_out, o_out = td_fields(t_out)
            if not set(r_out) <= set(r_in):
                return False
            for k, ft in {**r_in, **o_in}.items():
                tgt = r_out.get(k, o_out.get(k))
                if tgt is None or not admits_all(tgt, ft):
                    return False
            return True
        if is_generic(t_out) and gname(t_out) == "Dict":
            a = args_of(t_out)
            if not a:
                return True
            fields = list(r_in.values()) + list(o_in.values())
            return admits_all(a[0], str) and all(admits_all(a[1], ft) for ft in fields)
        return False
    if is_typed_dict(t_in) or is_typed_dict(t_out):
        return False
    gi, go = is_generic(t_in), is_generic(t_out)
    if gi and go:
        ni, no = gname(t_in), gname(t_out)
        ai, ao = args_of(t_in), args_of(t_out)
        if no == "Iterator" and ni == "Generator":
            return admits_all(ao[0], ai[0])
        if no == "Dict" and ni == "DefaultDict":
            return all(admits_all(x, y) for x, y in zip(ao, ai))
        if ni != no:
            return False
        if ao is None:
            return True
        if ai is None:
            return False
        if ni == "Tuple":
            out_var = len(ao) == 2 and ao[1] is Ellipsis
            in_var = len(ai) == 2 and ai[1] is Ellipsis
            if out_var:
                if in_var:
                    return admits_all(ao[0], ai[0])
                return all(admits_all(ao[0], x) for x in ai)
            if in_var:
                return False
            return len(ai) == len(ao) and all(admits_all(x, y) for x, y in zip(ao, ai))
        if ni == "Type":
            return isinstance(ai[0], type) and isinstance(ao[0], type) and issubclass(ai[0], ao[0])
        if ni == "Callable":
            return True
        if len(ai) != len(ao):
            return False
        # containers are treated covariantly (values of the narrower element type are values of
        # the wider one); this is the membership reading the property uses ("admits every value")
        return all(admits_all(x, y) for x, y in zip(ao, ai))
    if gi != go:
        return False
    if isinstance(t_in, type) and isinstance(t_out, type):
        return issubclass(t_in, t_out)
    return False
