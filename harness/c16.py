"""C16 (claimed in part): --pep_563 confines only annotation-only imports and keeps the module importable.

What is claimed: the behaviour of MonkeyType's own RemoveImportsTransformer,
MoveImportsToTypeCheckingBlockVisitor and get_newly_imported_items on modules that libcst has
already parsed.  libcst's parser and ApplyTypeAnnotationsVisitor run natively as preparation
(outside the engine); the property's first-line clause is asserted on that natively produced text.

 * remove_kernel -- the import items to move are ImportItems whose module / object / alias
   strings are SYMBOLIC (solver strings), constrained only as get_newly_imported_items guarantees
   (the item is not an import the source already has); RemoveImportsTransformer runs on a pre-parsed
   source tree; every import the source had must survive.
 * confine -- selectors over (source shape, stub) pairs; the real transform_module runs under the
   engine on the natively annotated tree; the result must import and run, keep every source import
   in place, and put exactly the annotation-only new imports under `if TYPE_CHECKING:`.
"""
from __future__ import annotations

import ast
import sys

from harness.common import ASSUME, FAIL, PASS, check, tape_harness  # noqa: F401

import libcst
from libcst.codemod import CodemodContext
from libcst.codemod.visitors import ApplyTypeAnnotationsVisitor, GatherImportsVisitor, ImportItem

from monkeytype.cli import apply_stub_using_libcst, get_newly_imported_items
from monkeytype.type_checking_imports_transformer import MoveImportsToTypeCheckingBlockVisitor, RemoveImportsTransformer

sys.setrecursionlimit(20000)

FUNCTIONS = [
    "monkeytype.type_checking_imports_transformer.RemoveImportsTransformer.leave_Import / leave_ImportFrom",
    "monkeytype.type_checking_imports_transformer.MoveImportsToTypeCheckingBlockVisitor.transform_module_impl / _remove_typing_module / "
    "_add_if_type_checking_block / _split_module / _get_import_module / _add_type_checking_import",
    "monkeytype.cli.get_newly_imported_items / apply_stub_using_libcst (confinement glue)",
]

SOURCES = {
    "plain_import": "import shapes\n\ndef f(a):\n    return shapes.Sq(a)\n",
    "from_alias": "from shapes import Sq as S\n\ndef f(a):\n    return S(a)\n",
    "from_two": "from shapes import Sq, Tri\n\ndef f(a):\n    return Sq(a), Tri\n",
    "dotted_alias": "import os.path as osp, sys\n\ndef f(a):\n    return osp.join('a', str(a)), sys\n",
    "docstring_future": '"""doc"""\nfrom __future__ import annotations\nimport shapes\n\ndef f(a):\n    return shapes.Sq(a)\n',
    "inside_function": "import sys\n\ndef f(a):\n    import shapes\n    return shapes.Sq(a)\n",
    "inside_function_from": "import sys\n\ndef f(a):\n    from shapes import Sq\n    return Sq(a)\n",
    "tc_in_try": "try:\n    from typing import TYPE_CHECKING\nexcept ImportError:\n    TYPE_CHECKING = False\n\ndef f(a):\n    return a\n",
    "tc_in_function": "import sys\n\ndef g():\n    from typing import TYPE_CHECKING\n    return TYPE_CHECKING\n\ndef f(a):\n    return a\n",
    "type_checking_block": "from typing import TYPE_CHECKING\nif TYPE_CHECKING:\n    from shapes import Sq\n\ndef f(a):\n    return a\n",
    "star": "from shapes import *\n\ndef f(a):\n    return Sq(a)\n",
    "no_imports": "def f(a):\n    return a\n",
    "typing_existing": "from typing import List\nimport shapes\n\ndef f(a: List[int]):\n    return shapes.Sq(a)\n",
}
SRC_NAMES = tuple(SOURCES)
_PARSED = {k: libcst.parse_module(v) for k, v in SOURCES.items()}


def _source_items(name):
    g = GatherImportsVisitor(CodemodContext())
    _PARSED[name].visit(g)
    return list(g.symbol_mapping.values())


_ITEMS = {k: _source_items(k) for k in SOURCES}


def import_triples(code: str):
    """(module, name or None, alias or None, inside TYPE_CHECKING?) for every import statement,
    anywhere in the module (functions and if-blocks included)."""
    out = []

    def visit(body, in_tc):
        for st in body:
            if isinstance(st, ast.Import):
                for a in st.names:
                    out.append((a.name, None, a.asname, in_tc))
            elif isinstance(st, ast.ImportFrom):
                for a in st.names:
                    out.append((st.module, a.name, a.asname, in_tc))
            elif isinstance(st, ast.If):
                tc = in_tc or "TYPE_CHECKING" in ast.unparse(st.test)
                visit(st.body, tc)
                visit(st.orelse, in_tc)
            elif isinstance(st, (ast.FunctionDef, ast.AsyncFunctionDef, ast.ClassDef, ast.With, ast.Try)):
                visit(st.body, in_tc)

    visit(ast.parse(code).body, False)
    return out


# ---------------------------------------------------------------- kernel with symbolic item strings
def remove_kernel_body(t, mod1, obj1, mod2, obj2, max_items=2, sources=None, only_from=False):
    # items come from GatherImportsVisitor on the stub: module and object names are non-empty
    ASSUME(1 <= len(mod1) <= 8 and 1 <= len(obj1) <= 4 and 1 <= len(mod2) <= 8 and 1 <= len(obj2) <= 4)
    srcs = sources if sources is not None else SRC_NAMES
    src = srcs[t.take(len(srcs))]
    n_items = 1 + t.take(max_items) if max_items > 0 else 2
    kinds = [0 if only_from else t.take(3) for _ in range(n_items)]  # 0: from-import item, 1: plain `import m` item, 2: from-import with alias

    def mk(kind, m, o):
        if kind == 1:
            return ImportItem(m, None, None)
        return ImportItem(m, o, "Z" if kind == 2 else None)

    items = [mk(kinds[0], mod1, obj1)] + ([mk(kinds[1], mod2, obj2)] if n_items == 2 else [])
    existing = _ITEMS[src]
    for it in items:
        # what get_newly_imported_items guarantees: a moved item is not an import the source has
        for ex in existing:
            ASSUME(not (it.module_name == ex.module_name and it.obj_name == ex.obj_name and it.alias == ex.alias))
    tree = _PARSED[src]
    result = tree.visit(RemoveImportsTransformer(items))
    before = import_triples(SOURCES[src])
    after = import_triples(result.code)
    for trip in before:
        if trip not in after:
            return check(False, lambda: f"source {src!r}: moving {[(str(i.module_name), None if i.obj_name is None else str(i.obj_name), i.alias) for i in items]} "
                                        f"deleted the existing import {trip[:3]}:\n{result.code}")
    return check(True)


tape_harness("remove_kernel", [("t", 5)], {"mod1": "str", "obj1": "str", "mod2": "str", "obj2": "str"}, remove_kernel_body, globals())
tape_harness("remove_kernel1", [("t", 5)], {"mod1": "str", "obj1": "str", "mod2": "str", "obj2": "str"},
             lambda t, mod1, obj1, mod2, obj2: remove_kernel_body(t, mod1, obj1, mod2, obj2, 1), globals())


# ---------------------------------------------------------------- full confinement on natively annotated trees
STUBS = {
    "user_class": "from geometry import Point\n\ndef f(a: Point) -> Point: ...\n",
    "typing_and_user": "from typing import List, Optional\nfrom geometry import Point\n\ndef f(a: List[Point]) -> Optional[Point]: ...\n",
    "same_module_new_name": "from shapes import Pt\n\ndef f(a: Pt) -> None: ...\n",
    "same_name_as_alias": "from shapes import Sq\n\ndef f(a: Sq) -> None: ...\n",
    "typed_dict": "from mypy_extensions import TypedDict\n\n\nclass ATypedDict__RENAME_ME__(TypedDict):\n    x: int\n\n\ndef f(a: 'ATypedDict__RENAME_ME__') -> int: ...\n",
    "already_imported": "from shapes import Sq\nimport sys\n\ndef f(a: Sq) -> None: ...\n",
    "only_known": "from typing import List\n\ndef f(a: List[int]) -> None: ...\n",  # brings no new import at all
    "typing_prefixed_module": "from typing_extra import Thing\nfrom geometry import Point\n\ndef f(a: Thing) -> Point: ...\n",
}
STUB_NAMES = tuple(STUBS)
# modules the fixture sources / stubs import: provided as real (empty-ish) modules when the result is executed
FAKE_MODULES = {
    "shapes": "__all__ = ['Sq', 'Tri']\nclass Sq:\n    def __init__(self, a=None):\n        self.a = a\nclass Tri: pass\nclass Pt: pass\n",
    "geometry": "class Point: pass\n",
    "inner": "class X: pass\n",
    "typing_extra": "class Thing: pass\n",
}


def _install_fake_modules():
    import types

    for name, code in FAKE_MODULES.items():
        if name not in sys.modules:
            m = types.ModuleType(name)
            exec(code, m.__dict__)  # noqa: S102
            sys.modules[name] = m


def _annotated(src_name, stub_name):
    """libcst's own work, done natively: parse, apply the stub with `from __future__ import annotations`."""
    stub_module = libcst.parse_module(STUBS[stub_name])
    source_module = libcst.parse_module(SOURCES[src_name])
    ctx = CodemodContext()
    ApplyTypeAnnotationsVisitor.store_stub_in_context(ctx, stub_module, False, use_future_annotations=True)
    annotated = ApplyTypeAnnotationsVisitor(ctx).transform_module(source_module)
    return stub_module, source_module, annotated


class _Untraced:
    """Suspends the symbolic engine's tracing (when there is one) around third-party work."""

    def __enter__(self):
        self._cm = None
        if "crosshair" in sys.modules:
            from engine import verdicts as _V

            if _V.UNDER_ENGINE:
                from crosshair.tracers import NoTracing

                self._cm = NoTracing()
                self._cm.__enter__()
        return self

    def __exit__(self, *a):
        if self._cm is not None:
            self._cm.__exit__(*a)
        return False


class _NativeApply:
    """Stands in for libcst's ApplyTypeAnnotationsVisitor inside monkeytype.cli: the same visitor, run with the engine's
    tracing suspended (its ~150 s per path under the engine is third-party work, not MonkeyType's)."""

    store_stub_in_context = staticmethod(ApplyTypeAnnotationsVisitor.store_stub_in_context)

    def __init__(self, context):
        self._context = context

    def transform_module(self, module):
        with _Untraced():
            return ApplyTypeAnnotationsVisitor(self._context).transform_module(module)


def _native_parse(text):
    with _Untraced():
        return libcst.parse_module(text)


def confine_case(src_name, stub_name):
    """The REAL cli.apply_stub_using_libcst(stub, source, overwrite=False, confine=True): MonkeyType's glue (which flags it
    hands to libcst, get_newly_imported_items, the confinement visitor) runs under the engine; libcst's parser and its
    annotation visitor run untraced."""
    import monkeytype.cli as CLI

    saved = CLI.ApplyTypeAnnotationsVisitor, CLI.parse_module
    CLI.ApplyTypeAnnotationsVisitor, CLI.parse_module = _NativeApply, _native_parse
    try:
        code = CLI.apply_stub_using_libcst(STUBS[stub_name], SOURCES[src_name], False, True)
    finally:
        CLI.ApplyTypeAnnotationsVisitor, CLI.parse_module = saved
    return None, code, None


def judge(src_name, stub_name, annotated_code, code, items):
    """The oracle on the final module text."""
    try:
        ast.parse(code)
    except SyntaxError as e:
        return f"result is not valid Python: {e}"
    first = [st for st in ast.parse(code).body if not (isinstance(st, ast.Expr) and isinstance(getattr(st, 'value', None), ast.Constant))][0]
    if not (isinstance(first, ast.ImportFrom) and first.module == "__future__" and any(a.name == "annotations" for a in first.names)):
        return "the result does not begin with `from __future__ import annotations`"
    before = import_triples(SOURCES[src_name])
    after = import_triples(code)
    for trip in before:
        if trip not in after:
            return f"the import {trip[:3]} the source already had is gone (or moved)"
    src_keys = {(m, n, a) for m, n, a, _ in before}
    for m, n, a, in_tc in after:
        if (m, n, a) in src_keys or m in ("__future__",) or (m, n) == ("typing", "TYPE_CHECKING"):
            continue
        runtime_needed = (m, n) == ("mypy_extensions", "TypedDict")
        if m == "typing":
            if in_tc:
                return f"typing import {n} was confined under TYPE_CHECKING"
        elif runtime_needed:
            if in_tc:
                return "mypy_extensions.TypedDict, the base class of a generated module-level class, is only imported under TYPE_CHECKING"
        elif not in_tc:
            return f"new annotation-only import ({m}, {n}) is not under `if TYPE_CHECKING:`"
    _install_fake_modules()
    # every import the stub introduces must be somewhere in the result (confined or not), unless a star import of the
    # source really provides that name
    star_modules = {m for m, n, _a, _tc in before if n == "*"}
    present = {(m, n) for m, n, _a, _tc in after}
    for m, n, _a, _tc in import_triples(STUBS[stub_name]):
        if (m, n) in present or n is None:
            continue
        if m in star_modules and n in getattr(sys.modules.get(m), "__all__", ()):
            continue
        return f"the stub's import ({m}, {n}) appears nowhere in the result: the annotation that uses it cannot be resolved"
    ns = {"__name__": "confined_module"}
    try:
        exec(compile(code, "<confined>", "exec"), ns)  # noqa: S102
        ns["f"](1)
    except Exception as e:  # noqa: BLE001
        return f"the resulting module does not import/run: {type(e).__name__}: {e}"
    return None


def confine_body(t, pairs=None):
    if pairs is None:
        src_name = SRC_NAMES[t.take(len(SRC_NAMES))]
        stub_name = STUB_NAMES[t.take(len(STUB_NAMES))]
    else:
        src_name, stub_name = pairs[t.take(len(pairs))]
    annotated_code, code, items = confine_case(src_name, stub_name)
    r = judge(src_name, stub_name, annotated_code, code, items)
    return check(r is None, lambda: f"source {src_name!r} + stub {stub_name!r}: {r}\n--- result ---\n{code}")


QUICK_PAIRS = (("plain_import", "user_class"), ("from_alias", "typing_and_user"), ("docstring_future", "user_class"), ("no_imports", "typing_and_user"),
               ("plain_import", "same_module_new_name"), ("from_alias", "same_name_as_alias"), ("no_imports", "typed_dict"), ("dotted_alias", "user_class"), ("no_imports", "typing_prefixed_module"), ("inside_function_from", "same_name_as_alias"), ("star", "same_module_new_name"),
               ("tc_in_try", "user_class"), ("tc_in_function", "user_class"), ("typing_existing", "only_known"))
tape_harness("confine_quick", [("t", 1)], {}, lambda t: confine_body(t, QUICK_PAIRS), globals())
tape_harness("confine_all", [("t", 2)], {}, lambda t: confine_body(t), globals())


KERNEL2_SOURCES = ("from_alias", "from_two")
tape_harness("remove_kernel2q", [("t", 5)], {"mod1": "str", "obj1": "str", "mod2": "str", "obj2": "str"},
             lambda t, mod1, obj1, mod2, obj2: remove_kernel_body(t, mod1, obj1, mod2, obj2, 0, KERNEL2_SOURCES, True), globals())


def shards(name):
    if name == "remove_kernel2q":
        return [{"t0": i} for i in range(len(KERNEL2_SOURCES))]
    if name.startswith("remove_kernel"):
        return [{"t0": i, "t1": j} for i in range(len(SRC_NAMES)) for j in range(1 if name.endswith("1") else 2)]
    if name == "confine_quick":
        return [{"t0": i} for i in range(len(QUICK_PAIRS))]
    return [{"t0": i, "t1": j} for i in range(len(SRC_NAMES)) for j in range(len(STUB_NAMES))]


def describe(name, args):
    out = dict(args)
    if name == "remove_kernel2q":
        out["source"] = KERNEL2_SOURCES[min(max(args.get("t0", 0), 0), 1)]
    elif name.startswith("remove_kernel"):
        out["source"] = SRC_NAMES[min(max(args.get("t0", 0), 0), len(SRC_NAMES) - 1)]
    elif name == "confine_quick":
        out["case"] = QUICK_PAIRS[min(max(args.get("t0", 0), 0), len(QUICK_PAIRS) - 1)]
    else:
        out["case"] = (SRC_NAMES[min(max(args.get("t0", 0), 0), len(SRC_NAMES) - 1)], STUB_NAMES[min(max(args.get("t1", 0), 0), len(STUB_NAMES) - 1)])
    return out
