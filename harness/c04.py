"""C04 / C05 / C06(type level): inference + merging over the value grammar, for every size limit k.

Symbolic: one tape per value (shape selectors), k (unconstrained int, >= 0 assumed), a
permutation selector.  Real code: get_type, get_dict_type, shrink_types,
shrink_typed_dict_types, RewriteAnonymousTypedDictToDict, make_typed_dict and the patched
TypedDict equality.
"""
from __future__ import annotations

from harness.common import ASSUME, FAIL, PASS, check, tape_harness  # noqa: F401  (sets sys.path)
from harness import oracles as O
from harness.values import G_CLS, G_DICT3, G_EQ, G_NESTED_ALT, G_ODD, G_DEEP, G_FULL1, G_MEDIUM, G_NESTED, G_NESTED2, G_NESTED4, G_NESTEDX, G_QUICK, G_SMALL, Grammar, build_value, show

from monkeytype.typing import get_type, shrink_types

FUNCTIONS = [
    "monkeytype.typing.get_type",
    "monkeytype.typing.get_dict_type",
    "monkeytype.typing.shrink_types",
    "monkeytype.typing.shrink_typed_dict_types",
    "monkeytype.typing.make_typed_dict",
    "monkeytype.typing.RewriteAnonymousTypedDictToDict.rewrite_anonymous_TypedDict",
    "monkeytype.typing.GenericTypeRewriter.rewrite/_rewrite_container",
    "monkeytype.compat.__are_typed_dict_types_equal (patched _TypedDictMeta.__eq__)",
]

PERMS3 = ((0, 1, 2), (0, 2, 1), (1, 0, 2), (1, 2, 0), (2, 0, 1), (2, 1, 0))


def _infer(vals, k):
    tys = [get_type(v, k) for v in vals]
    return tys, shrink_types(tys, k)


def _merge_checks(tys, merged, k, perm):
    """Order / multiplicity independence of the merge (C04, second sentence)."""
    n = len(tys)
    if n == 2:
        other = shrink_types([tys[1], tys[0]], k)
        if not O.struct_eq(merged, other, unordered_unions=True):
            return f"order dependence: {O.show_type(merged)} vs {O.show_type(other)}"
        dup = shrink_types([tys[0], tys[1], tys[0]], k)
        if not O.struct_eq(merged, dup, unordered_unions=True):
            return f"multiplicity dependence: {O.show_type(merged)} vs {O.show_type(dup)}"
    elif n == 3:
        p = PERMS3[perm]
        other = shrink_types([tys[p[0]], tys[p[1]], tys[p[2]]], k)
        if not O.struct_eq(merged, other, unordered_unions=True):
            return f"order dependence under {p}: {O.show_type(merged)} vs {O.show_type(other)}"
        dup = shrink_types([tys[0], tys[1], tys[2], tys[p[0]]], k)
        if not O.struct_eq(merged, dup, unordered_unions=True):
            return f"multiplicity dependence: {O.show_type(merged)} vs {O.show_type(dup)}"
    return None


def _typed_dict_limit(t, k, vals):
    """C06 at the type level: no TypedDict when k == 0, at most k keys otherwise, never empty."""
    for path, node in O.walk(t):
        if O.is_anon_td(node):
            r, o = O.td_fields(node)
            size = len(r) + len(o)
            if size == 0:
                return f"{path}: empty TypedDict"
            if k == 0:
                return f"{path}: TypedDict although the limit is 0"
            if size > k:
                return f"{path}: TypedDict with {size} keys > limit"
    return None


def make_body(g: Grammar, n: int, oracle: str):
    def body(*tapes, k, perm=0):
        ASSUME(k >= 0)
        if n == 3:
            perm_i = 0
            for c in range(5):
                if perm == c:
                    perm_i = c
                    break
            else:
                perm_i = 5
        else:
            perm_i = 0
        vals = [build_value(t, g.for_index(i) if hasattr(g, "for_index") else g) for i, t in enumerate(tapes)]
        tys, merged = _infer(vals, k)
        if oracle == "sound":
            bad = [i for i, v in enumerate(vals) if not O.conforms(v, merged)]
            if bad:
                return check(False, lambda: f"value #{bad[0]} {show(vals[bad[0]])} not a member of {O.show_type(merged)} (k={int(k)})")
            for v, ty in zip(vals, tys):
                if not O.conforms(v, ty):
                    return check(False, lambda: f"{show(v)} not a member of its own inferred type {O.show_type(ty)}")
            r = _merge_checks(tys, merged, k, perm_i)
            return check(r is None, lambda: f"{r} for values {[show(v) for v in vals]} (k={int(k)})")
        if oracle == "tight":
            r = O.witnessed(merged, vals)
            return check(r is None, lambda: f"{r}; type {O.show_type(merged)} from {[show(v) for v in vals]} (k={int(k)})")
        if oracle == "tdlimit":
            r = None
            for ty in list(tys) + [merged]:
                r = r or _typed_dict_limit(ty, k, vals)
            if r is None and k > 0:
                r = _td_only_for_str_dicts(merged, vals)
                for v, ty in zip(vals, tys):
                    r = r or _td_only_for_str_dicts(ty, [v])
            return check(r is None, lambda: f"{r}; type {O.show_type(merged)} from {[show(v) for v in vals]} (k={int(k)})")
        raise AssertionError(oracle)

    body.__doc__ = f"{oracle} over {n} value(s)"
    return body


def _td_only_for_str_dicts(t, vals, path="$"):
    """A TypedDict alternative at a position requires that the dicts observed there which it
    describes all have only string keys and are non-empty."""
    alts = list(t.__args__) if O.is_union(t) else [t]
    for alt in alts:
        if O.is_anon_td(alt):
            mine = [v for v in vals if type(v) is dict and O.conforms(v, alt)]
            for v in mine:
                if len(v) == 0 or not all(issubclass(type(kk), str) for kk in v):
                    return f"{path}: TypedDict describes dict {show(v)}"
            if not mine:
                return f"{path}: TypedDict without a str-keyed dict"
            r, o = O.td_fields(alt)
            for kk, ft in list(r.items()) + list(o.items()):
                rr = _td_only_for_str_dicts(ft, [v[kk] for v in mine if kk in v], f"{path}.{kk}")
                if rr:
                    return rr
        elif O.is_generic(alt) and O.gname(alt) in ("List", "Set", "Tuple", "Dict", "DefaultDict"):
            a = O.args_of(alt) or ()
            n = O.gname(alt)
            import collections

            pyt = {"List": list, "Set": set, "Tuple": tuple, "Dict": dict, "DefaultDict": collections.defaultdict}[n]
            mine = [v for v in vals if type(v) is pyt]
            if n in ("List", "Set") and a:
                rr = _td_only_for_str_dicts(a[0], [e for v in mine for e in v], path + "[0]")
                if rr:
                    return rr
            elif n in ("Dict", "DefaultDict") and len(a) == 2:
                rr = _td_only_for_str_dicts(a[1], [e for v in mine for e in v.values()], path + "[1]")
                if rr:
                    return rr
            elif n == "Tuple" and not (len(a) == 2 and a[1] is Ellipsis):
                for i, et in enumerate(a):
                    rr = _td_only_for_str_dicts(et, [v[i] for v in mine if len(v) == len(a)], f"{path}[{i}]")
                    if rr:
                        return rr
    return None


def tape_len(g) -> int:
    """Upper bound on symbols one value can consume (so TRUNC never happens within the grammar)."""
    if hasattr(g, "tape_len"):
        return g.tape_len()

    def need(depth):
        if depth <= 0:
            return 1
        per_elem = need(depth - 1) + 1  # +1 for a dict key selector
        return 2 + max(g.max_size, g.dict_max) * per_elem

    return need(g.depth)


GRAMMARS = {"quick": G_QUICK, "small": G_SMALL, "medium": G_MEDIUM, "deep": G_DEEP, "full1": G_FULL1, "nested": G_NESTED, "nested2": G_NESTED2, "nested4": G_NESTED4, "nestedx": G_NESTEDX, "eq": G_EQ, "odd": G_ODD, "nestedalt": G_NESTED_ALT, "cls": G_CLS, "dict3": G_DICT3}
TAPE_PREFIX = ("a", "b", "c")

REGISTRY = {}
for _gname, _g in GRAMMARS.items():
    for _n in (1, 2, 3):
        for _oracle in ("sound", "tight", "tdlimit"):
            _name = f"{_oracle}_{_gname}_{_n}"
            _extras = {"k": "int"}
            if _n == 3:
                _extras["perm"] = "int"
            tape_harness(_name, [(TAPE_PREFIX[i], tape_len(_g)) for i in range(_n)], _extras, make_body(_g, _n, _oracle), globals())
            REGISTRY[_name] = (_g, _n, _oracle)


def shards_for(name, prefix_len=3):
    """Disjoint shards: every concrete builder prefix of length <= prefix_len, per value."""
    from engine.verdicts import enumerate_prefixes

    g, n, _ = REGISTRY[name]
    shards = [{}]
    for i in range(n):
        gi = g.for_index(i) if hasattr(g, "for_index") else g
        prefixes = enumerate_prefixes(lambda t: build_value(t, gi), prefix_len)
        p = TAPE_PREFIX[i]
        shards = [dict(sh, **{f"{p}{j}": v for j, v in enumerate(pre)}) for sh in shards for pre in prefixes]
    return shards


def describe(name, args):
    from engine.verdicts import Tape

    g, n, _ = REGISTRY[name]
    vals = []
    for i in range(n):
        p = TAPE_PREFIX[i]
        tape = [args[f"{p}{j}"] for j in range(tape_len(g))]
        vals.append(build_value(Tape(tape), g.for_index(i) if hasattr(g, "for_index") else g))
    k = args["k"]
    tys, merged = _infer(vals, k)
    return {"values": [show(v) for v in vals], "k": k, "merged_type": O.show_type(merged)}
