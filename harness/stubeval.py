"""Reference evaluator for rendered stubs (trusted base, plain Python).

parse_stub(text, target_module) parses the stub with `ast`, executes its import block in an
empty namespace, reads the generated TypedDict class stubs structurally (name, base, total,
fields) and evaluates every annotation using ONLY the names the stub itself provides, plus
builtins and the classes defined in the target module.  A name that cannot be resolved raises
StubError: the stub is not self-contained.
"""
from __future__ import annotations

import ast
import builtins
import importlib
import typing
from typing import Any, Dict, List, Optional

from monkeytype.typing import make_typed_dict  # data constructor for the anonymous TypedDict shape


class StubError(Exception):
    pass


class FuncInfo:
    def __init__(self, node, class_path):
        self.node = node
        self.name = node.name
        self.class_path = tuple(class_path)
        self.is_async = isinstance(node, ast.AsyncFunctionDef)
        self.decorators = [ast.unparse(d) for d in node.decorator_list]
        self.annotations: Dict[str, Any] = {}  # parameter name -> evaluated type
        self.returns: Any = None  # evaluated return annotation or None if absent
        self.has_return = node.returns is not None
        a = node.args
        self.posonly = [x.arg for x in a.posonlyargs]
        self.pos = [x.arg for x in a.args]
        self.vararg = a.vararg.arg if a.vararg else None
        self.kwonly = [x.arg for x in a.kwonlyargs]
        self.kwarg = a.kwarg.arg if a.kwarg else None
        npos = len(a.posonlyargs) + len(a.args)
        with_default = set()
        for x in (a.posonlyargs + a.args)[npos - len(a.defaults):] if a.defaults else []:
            with_default.add(x.arg)
        for x, d in zip(a.kwonlyargs, a.kw_defaults):
            if d is not None:
                with_default.add(x.arg)
        self.with_default = with_default

    @property
    def qualname(self):
        return ".".join(self.class_path + (self.name,))

    def all_params(self):
        return self.posonly + self.pos + ([self.vararg] if self.vararg else []) + self.kwonly + ([self.kwarg] if self.kwarg else [])


class StubInfo:
    def __init__(self):
        self.imports: List[tuple] = []
        self.namespace: Dict[str, Any] = {}
        self.td_classes: Dict[str, dict] = {}  # name -> {base, total, fields}
        self.functions: Dict[str, List[FuncInfo]] = {}
        self.class_headers: List[str] = []
        self.names_used: List[str] = []


def _root_names(node):
    out = []
    for n in ast.walk(node):
        if isinstance(n, ast.Name):
            out.append(n.id)
    return out


def parse_stub(text: str, target_module: Optional[str], lenient_names: bool = False) -> StubInfo:
    try:
        tree = ast.parse(text)
    except SyntaxError as e:
        raise StubError(f"stub is not valid Python: {e}") from e
    info = StubInfo()
    ns: Dict[str, Any] = {}
    # names the target module itself provides to its own stub: its classes
    if target_module is not None:
        mod = importlib.import_module(target_module)
        for k, v in vars(mod).items():
            if lenient_names or (isinstance(v, type) and getattr(v, "__module__", None) == target_module):
                ns[k] = v
    # 1. the import block
    for st in tree.body:
        if isinstance(st, ast.ImportFrom):
            try:
                m = importlib.import_module(st.module)
            except Exception as e:  # noqa: BLE001
                raise StubError(f"stub imports from {st.module!r}, which cannot be imported: {e}") from e
            for al in st.names:
                if not hasattr(m, al.name):
                    raise StubError(f"stub imports {al.name!r} from {st.module!r}, which has no such name")
                ns[al.asname or al.name] = getattr(m, al.name)
                info.imports.append((st.module, al.name))
        elif isinstance(st, ast.Import):
            for al in st.names:
                ns[(al.asname or al.name).split(".")[0]] = importlib.import_module(al.name.split(".")[0])
                info.imports.append((al.name, None))
    info.namespace = ns

    # 2. generated TypedDict classes (structural reading)
    def is_td_class(st):
        return isinstance(st, ast.ClassDef) and st.bases and any(
            (isinstance(b, ast.Name) and (b.id == "TypedDict" or b.id in info.td_classes)) for b in st.bases)

    pending = [st for st in tree.body if isinstance(st, ast.ClassDef)]
    for st in pending:
        info.class_headers.append(st.name)
    td_nodes = []
    progress = True
    while progress:
        progress = False
        for st in list(pending):
            if is_td_class(st):
                base = st.bases[0].id
                if base == "TypedDict" and "TypedDict" not in ns:
                    raise StubError("generated class derives from TypedDict but the stub does not import it")
                total = True
                for kw in st.keywords:
                    if kw.arg == "total":
                        total = bool(ast.literal_eval(kw.value))
                info.td_classes[st.name] = {"base": base, "total": total, "fields": {}, "node": st}
                td_nodes.append(st)
                pending.remove(st)
                progress = True
    evaluating = set()

    def td_type(name):
        """The anonymous-TypedDict equivalent of generated class `name` (fields through the base chain)."""
        if name in evaluating:
            raise StubError(f"recursive TypedDict class {name}")
        evaluating.add(name)
        req, opt = {}, {}
        cur = name
        chain = []
        while cur != "TypedDict":
            if cur not in info.td_classes:
                raise StubError(f"TypedDict base {cur!r} is not defined in the stub")
            chain.append(cur)
            cur = info.td_classes[cur]["base"]
        for c in reversed(chain):
            rec = info.td_classes[c]
            for st in rec["node"].body:
                if isinstance(st, ast.AnnAssign) and isinstance(st.target, ast.Name):
                    t = evaluate(st.annotation)
                    (req if rec["total"] else opt)[st.target.id] = t
                elif isinstance(st, (ast.Pass, ast.Expr)):
                    continue
                else:
                    raise StubError(f"unexpected statement in TypedDict class {c}: {ast.unparse(st)}")
        evaluating.discard(name)
        return make_typed_dict(required_fields=req, optional_fields=opt)

    def resolve(t):
        """Replace forward references / names of generated TypedDict classes by their structure."""
        if isinstance(t, str):
            try:
                return evaluate(ast.parse(t, mode="eval").body)
            except SyntaxError as e:
                raise StubError(f"bad forward reference {t!r}: {e}") from e
        if isinstance(t, typing.ForwardRef):
            return resolve(t.__forward_arg__)
        if isinstance(t, _TDName):
            return td_type(t.name)
        if t is None:
            return type(None)
        origin = getattr(t, "__origin__", None)
        args = getattr(t, "__args__", None)
        if origin is not None and args:
            new = []
            for a in args:
                if a is Ellipsis:
                    new.append(a)
                elif isinstance(a, list):
                    new.append([resolve(x) for x in a])
                else:
                    new.append(resolve(a))
            if new != list(args) or any(x is not y for x, y in zip(new, args)):
                try:
                    return t.copy_with(tuple(new))
                except Exception as e:  # noqa: BLE001
                    raise StubError(f"cannot rebuild {t!r}: {e}") from e
        return t

    eval_ns = dict(ns)
    for name in info.td_classes:
        eval_ns[name] = _TDName(name)

    def evaluate(node):
        info.names_used.extend(_root_names(node))
        src = ast.unparse(node)
        try:
            val = eval(compile(ast.Expression(node), "<stub>", "eval"), {"__builtins__": vars(builtins)}, eval_ns)  # noqa: S307
        except NameError as e:
            raise StubError(f"annotation {src!r} uses a name the stub does not provide: {e}") from e
        except Exception as e:  # noqa: BLE001
            raise StubError(f"annotation {src!r} cannot be evaluated: {type(e).__name__}: {e}") from e
        return resolve(val)

    # 3. functions (module level and inside non-TypedDict classes, any depth)
    def visit(body, class_path):
        for st in body:
            if isinstance(st, (ast.FunctionDef, ast.AsyncFunctionDef)):
                fi = FuncInfo(st, class_path)
                a = st.args
                for x in a.posonlyargs + a.args + a.kwonlyargs + ([a.vararg] if a.vararg else []) + ([a.kwarg] if a.kwarg else []):
                    if x.annotation is not None:
                        fi.annotations[x.arg] = evaluate(x.annotation)
                if st.returns is not None:
                    fi.returns = evaluate(st.returns)
                info.functions.setdefault(fi.qualname, []).append(fi)
            elif isinstance(st, ast.ClassDef) and st not in td_nodes:
                visit(st.body, class_path + [st.name])

    visit(tree.body, [])
    for name in info.td_classes:
        td_type(name)  # every generated class must be well formed, referenced or not
    info.td_type = td_type
    return info


class _TDName:
    """Placeholder bound to the name of a generated TypedDict class while evaluating annotations."""

    def __init__(self, name):
        self.name = name

    def __repr__(self):
        return f"<generated TypedDict {self.name}>"
