"""Harness plumbing: path setup, the tape-harness factory, Skip/Truncated handling."""
from __future__ import annotations

import os
import sys

VERIF = os.path.dirname(os.path.dirname(os.path.abspath(__file__)))
REPO = os.environ.get("VERIF_REPO", "/repo")
for p in (os.path.join(VERIF, "fixtures"), VERIF, REPO):
    if p not in sys.path:
        sys.path.insert(0, p)
# the repository under test must win over any installed copy
sys.path.insert(0, REPO)

from engine.verdicts import FAIL, PASS, SKIP, TRUNC, Tape, Truncated, check  # noqa: E402,F401


class Skip(Exception):
    """An assumption of the harness does not hold on this path."""


def ASSUME(cond):
    if not cond:
        raise Skip()


def run_body(body, tapes, extras):
    try:
        return body(*[Tape(t) for t in tapes], **extras)
    except Truncated:
        return TRUNC
    except Skip:
        return SKIP


def tape_harness(name, tapes, extras, body, module_globals):
    """Create `def name(a0: int, ..., b0: int, ..., extra: T, ...)` in `module_globals`.

    `tapes` is a list of (prefix, length); `extras` maps parameter name -> 'int' | 'bool' | 'str'.
    The generated function decodes nothing itself: it hands Tape objects and the extra
    (still symbolic) scalars to `body`.
    """
    params, tape_exprs = [], []
    for prefix, n in tapes:
        names = [f"{prefix}{i}" for i in range(n)]
        params += [f"{x}: int" for x in names]
        tape_exprs.append("[" + ", ".join(names) + "]")
    params += [f"{k}: {t}" for k, t in extras.items()]
    src = (
        f"def {name}({', '.join(params)}):\n"
        f"    return _run_body(_body, [{', '.join(tape_exprs)}], dict({', '.join(f'{k}={k}' for k in extras)}))\n"
    )
    ns = {"_run_body": run_body, "_body": body}
    exec(src, ns)
    fn = ns[name]
    fn.__module__ = module_globals["__name__"]
    fn.__doc__ = body.__doc__
    fn._body = body
    module_globals[name] = fn
    return fn

# MonkeyType logs swallowed tracer/serialisation failures; the log text is not part of any property
import logging  # noqa: E402

logging.getLogger("monkeytype").setLevel(logging.CRITICAL + 10)
logging.getLogger("monkeytype").propagate = False
