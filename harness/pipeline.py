"""End-to-end pipeline harness (C01, C06 pipeline level, C14 store level):
model frames -> real CallTracer -> CallTraceStoreLogger -> real SQLiteStore (in-memory SQLite)
-> filter -> CallTraceRow.to_trace -> cli.get_stub -> rewriters -> stub text -> reference
stub evaluator.

Symbolic: value tapes for a call history of one parameter / return / yield position, k (the same
symbolic int configures the tracer and the stub generation), rewriter selector, CLI-flag selector,
function-kind selector.
"""
from __future__ import annotations

import argparse
import os
import sys
import opcode
import sqlite3

from harness.common import ASSUME, FAIL, PASS, check, tape_harness  # noqa: F401
from harness import oracles as O
from harness.frames import FakeFrame
from harness.stubeval import StubError, parse_stub
from harness.values import G_NESTED, G_NESTED2, G_NESTED_ALT, G_NESTEDX, G_ODD, G_ODD12, Grammar, build_value, show
from vfix import funcs as F

import monkeytype.typing as MT
from monkeytype import cli
from monkeytype.config import Config
from monkeytype.db.base import CallTraceStoreLogger
from monkeytype.db.sqlite import SQLiteStore, create_call_trace_table
from monkeytype.stubs import ExistingAnnotationStrategy as S
from monkeytype.tracing import CallTracer

FUNCTIONS = [
    "monkeytype.tracing.CallTracer.__call__ / handle_call / handle_return / get_func",
    "monkeytype.typing.get_type / shrink_types",
    "monkeytype.db.base.CallTraceStoreLogger.log / flush",
    "monkeytype.db.sqlite.SQLiteStore.add / filter / make_query / create_call_trace_table",
    "monkeytype.encoding.CallTraceRow.from_trace / to_trace / serialize_traces",
    "monkeytype.cli.get_stub",
    "monkeytype.stubs.build_module_stubs_from_traces / shrink_traced_types / get_updated_definition / ReplaceTypedDictsWithStubs / renderers",
    "monkeytype.typing rewriters (NoOp, each shipped rewriter, DEFAULT_REWRITER)",
]
G_PIPE = Grammar(top_atoms=("int", "None", "A"), elem_atoms=("int",), containers=("list", "dict_str", "tuple"), max_size=1,
                 depth=1, str_keys=("a",))
G_PIPE1 = Grammar(top_atoms=("int", "None", "A", "B"), elem_atoms=("int", "str"), containers=("list", "dict_str", "tuple", "set"), max_size=1,
                  depth=1, str_keys=("a",))
G_PIPE2 = Grammar(top_atoms=("int", "None", "A", "B", "cls_A", "func", "generator"), elem_atoms=("int", "str", "None"),
                  containers=("list", "dict_str", "tuple", "set", "dict_int", "defaultdict"), max_size=2, depth=1, str_keys=("a", "b"))
REWRITERS = ("NoOpRewriter", "DEFAULT_REWRITER", "RemoveEmptyContainers", "RewriteConfigDict", "RewriteLargeUnion", "RewriteMostSpecificCommonBase",
             "RewriteGenerator")
FLAGS = ("default", "--ignore-existing-annotations", "--omit-existing-annotations", "--disable-type-rewriting")
KINDS = ("function", "method", "generator", "coroutine", "partially_annotated")
KIND_FUNC = {"function": F.mod_func, "method": F.Klass.method, "generator": F.gen_func, "coroutine": F.coro_func, "partially_annotated": F.ann_class,
             "generator2": F.gen_func}  # generator2: ONE call of the generator yields every argument value of the history in turn
M = F.__name__


def _offset(code, names):
    ops = {opcode.opmap[n] for n in names if n in opcode.opmap}
    raw = code.co_code
    for i in range(0, len(raw), 2):
        if raw[i] in ops:
            return i
    raise AssertionError(f"no {names} in {code.co_name}")


class PipeConfig(Config):
    def __init__(self, store, k, rewriter):
        self._store, self._k, self._rw = store, k, rewriter

    def trace_store(self):
        return self._store

    def max_typed_dict_size(self):
        return self._k

    def type_rewriter(self):
        return self._rw

    def __ch_deep_realize__(self, memo):
        return self


class Sink:
    def __init__(self):
        self.b = []

    def write(self, x):
        self.b.append(x)

    def flush(self):
        pass

    def getvalue(self):
        return "".join(self.b)

    def __deepcopy__(self, memo):
        return self

    def __ch_deep_realize__(self, memo):
        return self


def make_rewriter(name):
    if name == "DEFAULT_REWRITER":
        return MT.DEFAULT_REWRITER
    if name == "RewriteLargeUnion":
        return MT.RewriteLargeUnion(2)
    return getattr(MT, name)()


def run_pipeline(kind, calls, k, rewriter_name, flag, flush_after=(), limit=2000):
    """calls: list of (argument value, result value); the logger is flushed (one batch per flush)
    after the calls whose index is in flush_after and at the end.
    Returns (rows, stub_text or None, stderr)."""
    func = KIND_FUNC[kind]
    code = func.__code__
    conn = sqlite3.connect(":memory:")
    create_call_trace_table(conn)
    store = SQLiteStore(conn)
    logger = CallTraceStoreLogger(store)
    tracer = CallTracer(logger, k, None, None)
    ret_off = _offset(code, ("RETURN_VALUE", "RETURN_CONST"))
    if kind == "generator2":
        names = code.co_varnames[: code.co_argcount]
        fr = FakeFrame(code, {names[0]: 0}, vars(F), None, 0)
        tracer(fr, "call", None)
        for arg, _res in calls:
            fr.f_lasti = _offset(code, ("YIELD_VALUE",))
            tracer(fr, "return", arg)
            tracer(fr, "call", None)
        fr.f_lasti = ret_off
        tracer(fr, "return", None)
        calls = ()
    for call_index, (arg, res) in enumerate(calls):
        if call_index in flush_after:
            logger.flush()
        names = code.co_varnames[: code.co_argcount + code.co_kwonlyargcount]
        locs = {}
        for i, n in enumerate(names):
            if n in ("self",):
                locs[n] = F.Klass()
            elif i == (1 if names[0] == "self" else 0):
                locs[n] = arg
            else:
                locs[n] = 0
        fr = FakeFrame(code, locs, vars(F), None, 0)
        tracer(fr, "call", None)
        if kind == "generator":
            fr.f_lasti = _offset(code, ("YIELD_VALUE",))
            tracer(fr, "return", res)
            tracer(fr, "call", None)
            fr.f_lasti = ret_off
            tracer(fr, "return", None)
        else:
            fr.f_lasti = ret_off
            tracer(fr, "return", res)
    logger.flush()
    rows = store.filter(M, None, limit)
    strategy = {"--ignore-existing-annotations": S.IGNORE, "--omit-existing-annotations": S.OMIT}.get(flag, S.REPLICATE)
    out, err = Sink(), Sink()
    args = argparse.Namespace(module_path=(M, None), limit=limit, verbose=True, config=PipeConfig(store, k, make_rewriter(rewriter_name)),
                              disable_type_rewriting=(flag == "--disable-type-rewriting"), existing_annotation_strategy=strategy, sample_count=False)
    stub = cli.get_stub(args, out, err)
    conn.close()
    return rows, (stub.render() if stub is not None else None), err.getvalue()


CONFIGS = (
    ("function", "NoOpRewriter", "default"), ("function", "DEFAULT_REWRITER", "default"), ("function", "DEFAULT_REWRITER", "--disable-type-rewriting"),
    ("function", "RemoveEmptyContainers", "default"), ("function", "RewriteConfigDict", "default"), ("function", "RewriteLargeUnion", "default"),
    ("function", "RewriteMostSpecificCommonBase", "default"), ("function", "RewriteGenerator", "default"),
    ("method", "DEFAULT_REWRITER", "default"), ("generator", "DEFAULT_REWRITER", "default"), ("coroutine", "DEFAULT_REWRITER", "default"),
    ("partially_annotated", "DEFAULT_REWRITER", "default"), ("partially_annotated", "DEFAULT_REWRITER", "--ignore-existing-annotations"),
    ("partially_annotated", "DEFAULT_REWRITER", "--omit-existing-annotations"), ("generator", "NoOpRewriter", "--ignore-existing-annotations"),
    ("generator2", "DEFAULT_REWRITER", "default"), ("generator2", "NoOpRewriter", "default"),
)
RES_QUICK = Grammar(top_atoms=("int", "None"), elem_atoms=("int",), containers=("list",), max_size=0, depth=1)


def decode_case(t, g, n_calls, full_matrix=False):
    if full_matrix == "single":
        kind, rw, flag = CONFIGS[0]
    elif isinstance(full_matrix, tuple):
        kind, rw, flag = CONFIGS[full_matrix[t.take(len(full_matrix))]]
    elif full_matrix:
        kind = KINDS[t.take(len(KINDS))]
        rw = REWRITERS[t.take(len(REWRITERS))]
        flag = FLAGS[t.take(len(FLAGS))]
    else:
        kind, rw, flag = CONFIGS[t.take(len(CONFIGS))]
    calls = []
    for i in range(n_calls):
        arg = build_value(t, g.for_index(i) if hasattr(g, "for_index") else g)
        res = build_value(t, g if full_matrix is True else RES_QUICK) if (i == 0 or full_matrix is True) and full_matrix != "single" and not isinstance(full_matrix, tuple) else None
        calls.append((arg, res))
    return kind, rw, flag, calls


def c01_body(t, k, g=G_PIPE, n_calls=2, full=False):
    ASSUME(k >= 0)
    kind, rw, flag, calls = decode_case(t, g, n_calls, full)
    rows, text, err = run_pipeline(kind, calls, k, rw, flag)
    func = KIND_FUNC[kind]

    def fail(msg):
        return check(False, lambda: f"{kind} rewriter={rw} flag={flag} k={int(k)} calls={[(show(a), show(r)) for a, r in calls]}: {msg}\n--- stub ---\n{text}")

    if text is None:
        return fail(f"no stub generated; stderr={err!r}")
    try:
        info = parse_stub(text, M, lenient_names=(kind == "partially_annotated"))
    except StubError as e:
        return fail(str(e))
    fis = info.functions.get(func.__qualname__)
    if not fis or len(fis) != 1:
        return fail(f"{func.__qualname__} not in stub exactly once")
    fi = fis[0]
    names = func.__code__.co_varnames[: func.__code__.co_argcount]
    pname = names[1] if names[0] == "self" else names[0]
    source_annotated = kind == "partially_annotated"
    arg_in_scope = not (source_annotated and flag != "--ignore-existing-annotations")  # else the source annotation / nothing stands there
    if kind == "generator2":
        anno = fi.returns if fi.has_return else None
        if anno is None or not (O.is_generic(anno) and O.gname(anno) in ("Iterator", "Generator")):
            return fail(f"generator annotated {O.show_type(anno) if anno is not None else None}")
        for a, _r in calls:
            if not O.conforms(a, O.args_of(anno)[0]):
                return fail(f"return annotation {O.show_type(anno)} does not admit the yielded value {show(a)}")
        return check(True)
    if arg_in_scope:
        anno = fi.annotations.get(pname)
        if anno is None:
            return fail(f"traced parameter {pname} has no annotation")
        for a, _r in calls:
            if not O.conforms(a, anno):
                return fail(f"parameter {pname}: annotation {O.show_type(anno)} does not admit the observed value {show(a)}")
    ret_in_scope = not (source_annotated and flag != "--ignore-existing-annotations")
    if ret_in_scope:
        if not fi.has_return:
            return fail("traced return position has no annotation")
        anno = fi.returns
        for _a, r in calls:
            if kind == "generator":
                ok = O.is_generic(anno) and O.gname(anno) in ("Iterator", "Generator") and O.conforms(r, O.args_of(anno)[0])
                if not ok:
                    return fail(f"return annotation {O.show_type(anno)} does not admit the yielded value {show(r)}")
            elif not O.conforms(r, anno):
                return fail(f"return annotation {O.show_type(anno)} does not admit the returned value {show(r)}")
    return check(True)


def c06_body(t, k, g=G_PIPE, n_calls=2, full=False):
    """Size limit through the store round trip and the rendered stub."""
    ASSUME(k >= 0)
    kind, rw, flag, calls = decode_case(t, g, n_calls, full)
    rows, text, err = run_pipeline(kind, calls, k, rw, flag)

    def fail(msg):
        return check(False, lambda: f"{kind} rewriter={rw} flag={flag} k={int(k)} calls={[(show(a), show(r)) for a, r in calls]}: {msg}\n--- stub ---\n{text}")

    for row in rows:
        for col in (row.arg_types, row.return_type, row.yield_type):
            if col and "is_typed_dict" in col:
                if k == 0:
                    return fail(f"stored trace contains a TypedDict although the limit is 0: {col}")
                import json

                bad = _oversize(json.loads(col), k)
                if bad:
                    return fail(f"stored trace contains a TypedDict with {bad} keys > limit: {col}")
    if text is None:
        return fail(f"no stub generated; stderr={err!r}")
    try:
        info = parse_stub(text, M, lenient_names=True)
    except StubError as e:
        return fail(str(e))
    if k == 0 and (info.td_classes or "TypedDict" in text):
        return fail("the stub contains TypedDict classes although the limit is 0")
    for name in info.td_classes:
        td = info.td_type(name)
        r, o = O.td_fields(td)
        size = len(r) + len(o)
        if size == 0:
            return fail(f"generated class {name} has no fields")
        if size > k:
            return fail(f"generated class {name} has {size} fields (counting inherited) > limit")
    # TypedDict classes only where every observed dict had string keys, never for {}
    for fis in info.functions.values():
        for fi in fis:
            for anno in list(fi.annotations.values()) + ([fi.returns] if fi.has_return else []):
                for _p, node in O.walk(anno):
                    if O.is_anon_td(node):
                        dicts = _nested_dicts([v for a, r in calls for v in (a, r)])
                        good = [d for d in dicts if len(d) > 0 and all(issubclass(type(x), str) for x in d) and O.conforms(d, node)]
                        bad = [d for d in dicts if (len(d) == 0 or not all(issubclass(type(x), str) for x in d)) and O.conforms(d, node)]
                        # an empty / non-str-keyed dict that happens to fit an all-optional TypedDict is only a defect when
                        # nothing else at the annotation accounts for it (e.g. Union[List[Dict[Any, Any]], List[TD]] from two yields)
                        plain_dict = any(O.is_generic(x) and not O.is_union(x) and O.gname(x) in ("Dict", "DefaultDict") for _q, x in O.walk(anno))
                        if not good or (bad and not plain_dict):
                            return fail(f"TypedDict annotation {O.show_type(node)} although the observed dicts were {[show(d) for d in dicts]}")
    return check(True)


def two_funcs_body(t, k):
    """C06 at the module-stub level: two functions whose same-named parameter saw differently shaped
    str-keyed dicts; every generated class must still respect the limit."""
    from monkeytype.stubs import build_module_stubs_from_traces
    from monkeytype.tracing import CallTrace
    from monkeytype.typing import get_type

    ASSUME(k >= 0)
    keys = ("a", "b", "c", "d")
    dicts = []
    for _ in range(2):
        d = {}
        for key in keys:
            if t.take(2) == 1 and len(d) < 2:
                d[key] = 1
        dicts.append(d)
    rw = make_rewriter(("NoOpRewriter", "DEFAULT_REWRITER")[t.take(2)])
    traces = [CallTrace(F.mod_func, {"a": get_type(dicts[0], k)}, None), CallTrace(F.Klass.method, {"a": get_type(dicts[1], k)}, None)]
    if t.take(2) == 1:
        traces.reverse()
    text = build_module_stubs_from_traces(traces, k, S.IGNORE, rw)[M].render()
    try:
        info = parse_stub(text, M, lenient_names=True)
    except StubError as e:
        return check(False, lambda: f"{e}\n{text}")
    if k == 0 and (info.td_classes or "TypedDict" in text):
        return check(False, lambda: f"TypedDict classes in the stub although the limit is 0:\n{text}")
    for name in info.td_classes:
        r, o = O.td_fields(info.td_type(name))
        if len(r) + len(o) > k or len(r) + len(o) == 0:
            return check(False, lambda: f"dicts {dicts} k={int(k)}: generated class {name} has {len(r) + len(o)} fields\n--- stub ---\n{text}")
    return check(True)


tape_harness("c06_two_funcs", [("t", 10)], {"k": "int"}, two_funcs_body, globals())


def _nested_dicts(values):
    """Every exact-dict instance observed anywhere inside the values (containers are descended)."""
    out = []

    def rec(v):
        if type(v) is dict:
            out.append(v)
            for x in v.values():
                rec(x)
        elif type(v) in (list, tuple, set):
            for x in v:
                rec(x)
        elif hasattr(v, "default_factory") and isinstance(v, dict):
            for x in v.values():
                rec(x)

    for v in values:
        rec(v)
    return out


def _oversize(d, k):
    """Largest offending TypedDict size in a decoded type dict, or 0."""
    worst = 0
    if isinstance(d, dict):
        if d.get("is_typed_dict") and d.get("qualname") == "DUMMY_NAME":
            et = d.get("elem_types", {})
            n = len(et.get("required_fields", {}).get("elem_types", {})) + len(et.get("optional_fields", {}).get("elem_types", {}))
            if n > k or n == 0:
                worst = max(worst, n or 999)
        for v in d.values():
            worst = max(worst, _oversize(v, k))
    elif isinstance(d, list):
        for v in d:
            worst = max(worst, _oversize(v, k))
    return worst


def realrun_body(t, k):
    """C01 on real bytecode: the fixture workload recorded from the running interpreter (real code objects,
    real f_lasti, real values) goes through the real tracer, logger, SQLite store, decoder and stub
    generation; every annotation of every stubbed function must admit the values observed at its position."""
    import harness.c02 as C2

    ASSUME(k >= 0)
    rw = REWRITERS[t.take(len(REWRITERS))]
    flag = FLAGS[t.take(len(FLAGS))]
    evs = C2.recorded_events()
    conn = sqlite3.connect(":memory:")
    create_call_trace_table(conn)
    store = SQLiteStore(conn)
    logger = CallTraceStoreLogger(store)
    tracer = CallTracer(logger, k, None, None)
    proxies = {}
    for e in evs:
        fr = proxies.get(e.frame_id)
        if fr is None:
            back = None
            for locs in reversed(e.back_locals):
                back = FakeFrame(None, locs, {}, back)
            fr = proxies[e.frame_id] = FakeFrame(e.code, {}, e.globals, back)
        fr.f_locals, fr.f_lasti = e.locals, e.lasti
        tracer(fr, e.event, e.arg)
    logger.flush()
    strategy = {"--ignore-existing-annotations": S.IGNORE, "--omit-existing-annotations": S.OMIT}.get(flag, S.REPLICATE)

    def fail(msg):
        return check(False, lambda: f"recorded workload, rewriter={rw} flag={flag} k={int(k)}: {msg}")

    # one stub per module of the workload (the twin modules have byte-identical source: equal code objects, different modules)
    infos, texts = {}, {}
    for mod_name in (M, "vfix.twin_a", "vfix.twin_b"):
        out, err = Sink(), Sink()
        args = argparse.Namespace(module_path=(mod_name, None), limit=2000, verbose=True, config=PipeConfig(store, k, make_rewriter(rw)),
                                  disable_type_rewriting=(flag == "--disable-type-rewriting"), existing_annotation_strategy=strategy, sample_count=False)
        stub = cli.get_stub(args, out, err)
        text = stub.render() if stub is not None else None
        if text is None:
            conn.close()
            return fail(f"no stub generated for {mod_name}; stderr={err.getvalue()!r}")
        try:
            infos[sys.modules[mod_name].__file__] = parse_stub(text, mod_name)
        except StubError as e:
            conn.close()
            return fail(f"{mod_name}: {e}\n--- stub ---\n{text}")
        texts[sys.modules[mod_name].__file__] = text
    conn.close()
    expected, _unfinished = C2._expected_log(evs, lambda code: True, k)
    seen_functions = 0
    for code, entry, ret_present, ret_value, yields in expected:
        qn = code.co_qualname
        if "<locals>" in qn or code.co_name in ("__init__",):
            continue
        info, text = infos.get(code.co_filename), texts.get(code.co_filename)
        if info is None:
            return fail(f"finished call of {qn} from {code.co_filename}: not a module of the workload")
        fis = info.functions.get(qn)
        if not fis:
            return fail(f"finished call of {qn} ({os.path.basename(code.co_filename)}) has no function stub\n--- stub ---\n{text}")
        if len(fis) != 1:
            return fail(f"{qn} stubbed {len(fis)} times")
        fi = fis[0]
        seen_functions += 1
        for name, v in entry.items():
            if name in ("self", "cls") and name == code.co_varnames[0]:
                continue
            anno = fi.annotations.get(name)
            if anno is None:
                return fail(f"{qn}: traced parameter {name} has no annotation")
            if not O.conforms(v, anno):
                return fail(f"{qn}: parameter {name}: {O.show_type(anno)} does not admit the observed value {show(v)}")
        if not (ret_present or yields):
            continue
        if not fi.has_return:
            return fail(f"{qn}: returned/yielded but the stub has no return annotation")
        anno = fi.returns
        if yields:
            if not (O.is_generic(anno) and O.gname(anno) in ("Iterator", "Generator")):
                return fail(f"{qn}: generator annotated {O.show_type(anno)}")
            a = O.args_of(anno)
            for y in yields:
                if not O.conforms(y, a[0]):
                    return fail(f"{qn}: {O.show_type(anno)} does not admit the yielded value {show(y)}")
            if ret_present:
                if O.gname(anno) == "Generator":
                    if not O.conforms(ret_value, a[2]):
                        return fail(f"{qn}: {O.show_type(anno)} does not admit the returned value {show(ret_value)}")
                elif ret_value is not None:
                    return fail(f"{qn}: generator returned {show(ret_value)} but is annotated {O.show_type(anno)}")
        elif ret_present and not O.conforms(ret_value, anno):
            return fail(f"{qn}: return annotation {O.show_type(anno)} does not admit the returned value {show(ret_value)}")
    return check(seen_functions >= 25, lambda: f"only {seen_functions} functions of the workload were stubbed")


tape_harness("c01_realrun", [("t", 2)], {"k": "int"}, realrun_body, globals())


G_DICT = Grammar(top_atoms=("int", "None"), elem_atoms=("int", "str"), containers=("dict_str", "dict_int", "dict_mixed", "list"), max_size=2,
                 depth=1, str_keys=("a", "b", "c"), dict_max=3)
# None, ints and tuples of 0..2 ints / bools (1 == True and they hash alike): three calls make unions of same-element tuples of
# different lengths next to None (RewriteLargeUnion's tuple path) and equal tuples of different element classes (value-keyed caches)
G_TUP = Grammar(top_atoms=("None", "int"), elem_atoms=("int", "bool"), containers=("tuple",), max_size=2, depth=1)
_CFG = {
    "c01_tuples": (c01_body, G_TUP, 3, (0, 1, 5)),
    "c01_odd": (c01_body, G_ODD, 3, (0, 1, 3)), "c01_odd_quick": (c01_body, G_ODD12, 3, (0, 1)), "c01_nestedalt": (c01_body, G_NESTED_ALT, 2, "single"), "c06_gen2": (c06_body, None, 2, (15, 16)), "c01_gen2": (c01_body, G_PIPE, 2, (15, 16)),
    "c01_quick": (c01_body, G_PIPE, 2, False), "c01_medium": (c01_body, G_PIPE1, 2, False), "c01_thorough": (c01_body, G_PIPE2, 2, False),
    "c01_three": (c01_body, G_PIPE, 3, False), "c01_matrix": (c01_body, G_PIPE, 2, True),
    "c01_nested2": (c01_body, G_NESTED2, 2, "single"), "c01_nested": (c01_body, G_NESTED, 2, "single"),
    "c06_nested": (c06_body, G_NESTED, 2, "single"), "c01_nestedx": (c01_body, G_NESTEDX, 2, "single"), "c06_nestedx": (c06_body, G_NESTEDX, 2, "single"),
    "c06_quick": (c06_body, G_PIPE, 2, False), "c06_dicts": (c06_body, G_DICT, 2, False), "c06_thorough": (c06_body, G_PIPE2, 2, False),
}
# bare str-keyed dicts over three keys, <= 2 keys each: two yields of one generator call whose key sets differ
G_DICTK = Grammar(top_atoms=("int",), elem_atoms=("int",), containers=("dict_str",), max_size=2, depth=1, str_keys=("a", "b", "c"))
_CFG["c06_gen2"] = (c06_body, G_DICTK, 2, (15, 16))
for _n, (_b, _g, _calls, _full) in _CFG.items():
    def _mk(b=_b, g=_g, c=_calls, f=_full):
        return lambda t, k: b(t, k, g, c, f)
    _tl = _g.tape_len() if hasattr(_g, "tape_len") else (2 + 2 * max(_g.max_size, _g.dict_max))
    tape_harness(_n, [("t", 4 + _calls * 2 * _tl)], {"k": "int"}, _mk(), globals())


def shards(name, prefix=5):
    from engine.verdicts import enumerate_prefixes

    if name == "c06_two_funcs":
        return [{f"t{j}": v for j, v in enumerate(p)} for p in enumerate_prefixes(lambda t: two_funcs_body(t, 2), prefix)]
    if name == "c01_realrun":
        return [{"t0": i, "t1": j} for i in range(len(REWRITERS)) for j in range(len(FLAGS))]

    _b, g, n, full = _CFG[name]
    pres = enumerate_prefixes(lambda t: decode_case(t, g, n, full), prefix)
    return [{f"t{j}": v for j, v in enumerate(p)} for p in pres]


def describe(name, args):
    from engine.verdicts import Tape

    if name in ("c06_two_funcs", "c01_realrun"):
        return dict(args, rewriter=REWRITERS[min(max(args.get("t0", 0), 0), len(REWRITERS) - 1)]) if name == "c01_realrun" else dict(args)

    _b, g, n, full = _CFG[name]
    ks = sorted((k for k in args if k[0] == "t" and k[1:].isdigit()), key=lambda s: int(s[1:]))
    kind, rw, flag, calls = decode_case(Tape([args[k] for k in ks]), g, n, full)
    rows, text, err = run_pipeline(kind, calls, args["k"], rw, flag)
    return {"function_kind": kind, "rewriter": rw, "flag": flag, "k": args["k"], "calls(arg,result)": [(show(a), show(r)) for a, r in calls], "stub": text}
