"""C14 -- stub content depends only on the set of traces, not their order or process.

Symbolic: value tapes for 2-3 traces of two fixture functions, a permutation and a duplication of
the trace list, and -- standing in for per-process hashing and memory layout -- the iteration order
of EVERY set built inside monkeytype.stubs: the name `set` in that module's globals is bound to a
PermSet whose iteration order is decided by tape symbols (environment stub: "the iteration order of
a set is arbitrary").
Real code: build_module_stubs_from_traces, shrink_traced_types, shrink_types, rewriters, renderers.
"""
from __future__ import annotations

from harness.common import ASSUME, FAIL, PASS, check, tape_harness  # noqa: F401
from harness import oracles as O
from harness.known import listed
from harness.stubeval import StubError, parse_stub
from harness.values import ChoiceGrammar, Grammar, build_value, show
from vfix import classes as K
from vfix import funcs as F

import monkeytype.stubs as MS
import monkeytype.typing as MT
from monkeytype.stubs import ExistingAnnotationStrategy, build_module_stubs_from_traces
from monkeytype.tracing import CallTrace
from monkeytype.typing import get_type

FUNCTIONS = [
    "monkeytype.stubs.build_module_stubs_from_traces (defaultdict(set) index)",
    "monkeytype.stubs.shrink_traced_types (per-argument sets of types)",
    "monkeytype.typing.shrink_types / shrink_typed_dict_types",
    "monkeytype.stubs.get_updated_definition / build_module_stubs / ImportMap / ImportBlockStub.render / ModuleStub.render / ClassStub.render",
    "monkeytype.typing.DEFAULT_REWRITER (RemoveEmptyContainers, RewriteConfigDict, RewriteLargeUnion, RewriteGenerator)",
]
G_ORD = Grammar(top_atoms=("int", "A"), elem_atoms=("int",), containers=("list", "dict_str"), max_size=1, depth=1,
                str_keys=("a", "b"))
G_ORD2 = Grammar(top_atoms=("int", "str", "A"), elem_atoms=("int",), containers=("list", "dict_str"), max_size=1, depth=1,
                 str_keys=("a", "b"))
G_ORD3 = Grammar(top_atoms=("int", "str", "None", "A", "B"), elem_atoms=("int", "str"), containers=("list", "dict_str", "tuple"), max_size=1, depth=1,
                 str_keys=("a", "b"))
RETS = (None, int, str)
M = F.__name__


class PermSet:
    """A set whose iteration order is chosen by the harness tape."""

    tape = None  # the Tape deciding the orders on the current path (None: insertion order)
    depth = 2  # how many leading positions of each iteration are chosen freely (the rest keep insertion order)

    def __init__(self, it=()):
        self._items = []
        self._order = None  # a real set iterates in ONE arbitrary order as long as it is not modified
        for x in it:
            self.add(x)

    def add(self, x):
        for y in self._items:
            if y is x or (hash(y) == hash(x) and y == x):
                return
        self._items.append(x)
        self._order = None

    def update(self, it):
        for x in list(it):
            self.add(x)

    def __len__(self):
        return len(self._items)

    def __bool__(self):
        return bool(self._items)

    def __contains__(self, x):
        return any(y is x or y == x for y in self._items)

    def __iter__(self):
        if self._order is None:
            rest = list(self._items)
            t = PermSet.tape
            if all(isinstance(x, str) for x in rest):
                t = None  # sets of import names: every consumer sorts them; keeping them fixed bounds the tree
            out = []
            while rest:
                i = t.take(len(rest)) if (t is not None and len(rest) > 1 and len(out) < PermSet.depth) else 0
                out.append(rest.pop(i))
            self._order = out
        return iter(list(self._order))

    def __eq__(self, other):
        try:
            return len(self) == len(other) and all(x in other for x in self._items)
        except TypeError:
            return NotImplemented

    def __repr__(self):
        return "PermSet(%r)" % (self._items,)


def render(traces, k, rewriter, order_tape, depth=2):
    saved = MS.__dict__.get("set", None)
    MS.set = PermSet
    PermSet.tape = order_tape
    PermSet.depth = depth
    try:
        stubs = build_module_stubs_from_traces(traces, k, ExistingAnnotationStrategy.IGNORE, rewriter)
        return {m: s.render() for m, s in stubs.items()}
    finally:
        PermSet.tape = None
        if saved is None:
            del MS.set
        else:
            MS.set = saved


def same_stub(a: str, b: str, module):
    if a == b:
        return None
    try:
        ia, ib = parse_stub(a, module, True), parse_stub(b, module, True)
    except StubError as e:
        return f"stub does not evaluate: {e}"
    if sorted(ia.imports) != sorted(ib.imports):
        return f"imports differ: {sorted(ia.imports)} vs {sorted(ib.imports)}"
    if set(ia.functions) != set(ib.functions):
        return f"functions differ: {sorted(ia.functions)} vs {sorted(ib.functions)}"
    if sorted(ia.td_classes) != sorted(ib.td_classes):
        return f"generated TypedDict classes differ: {sorted(ia.td_classes)} vs {sorted(ib.td_classes)}"
    for q in ia.functions:
        fa, fb = ia.functions[q][0], ib.functions[q][0]
        if set(fa.annotations) != set(fb.annotations) or fa.has_return != fb.has_return:
            return f"{q}: annotated positions differ"
        for n in fa.annotations:
            if not O.struct_eq(fa.annotations[n], fb.annotations[n], unordered_unions=True):
                return f"{q} parameter {n}: {O.show_type(fa.annotations[n])} vs {O.show_type(fb.annotations[n])}"
        if fa.has_return and not O.struct_eq(fa.returns, fb.returns, unordered_unions=True):
            return f"{q} return: {O.show_type(fa.returns)} vs {O.show_type(fb.returns)}"
    return None


def has_class_name_collision(stub_text: str) -> bool:
    """Known finding C14-typeddict-class-name-collision: the stub defines two generated TypedDict
    classes with the same name (from same-named parameters of different functions)."""
    import re

    names = re.findall(r"^class (\w+)\(", stub_text, flags=re.M)
    return len(names) != len(set(names))


def collision_witness():
    """Two rows, two orders: the class ATypedDict__RENAME_ME__ the stub ends up with differs."""
    t1 = CallTrace(F.mod_func, {"a": get_type({"a": "s"}, 3)}, None)
    t2 = CallTrace(F.Klass.method, {"a": get_type({"b": "s"}, 3)}, None)
    one = render([t1, t2], 3, MT.NoOpRewriter(), None)[M]
    two = render([t2, t1], 3, MT.NoOpRewriter(), None)[M]
    r = same_stub(one, two, M)
    return check(r is None, lambda: f"{r}")


def order_body(t, n_traces=3, g=G_ORD, honour_known=True, with_dup=True, rets=RETS):
    k = (0, 3)[t.take(2)]
    rewriter = (MT.NoOpRewriter(), MT.DEFAULT_REWRITER)[t.take(2)]
    traces = []
    for i in range(n_traces):
        func = (F.mod_func, F.Klass.method)[t.take(2)]
        v = build_value(t, g)
        r = rets[t.take(len(rets))] if i == 0 else None
        traces.append(CallTrace(func, {"a": get_type(v, k)}, r))
    base = render(traces, k, rewriter, None)
    if honour_known and listed("C14-typeddict-class-name-collision"):
        ASSUME(not any(has_class_name_collision(txt) for txt in base.values()))
    # a permutation and a duplication of the rows, arbitrary set iteration orders
    rest = list(traces)
    perm = []
    while rest:
        perm.append(rest.pop(t.take(len(rest)) if len(rest) > 1 else 0))
    dup = t.take(n_traces + 1) if with_dup else n_traces
    if dup < n_traces:
        perm.append(traces[dup])
    other = render(perm, k, rewriter, t)
    if set(base) != set(other):
        return check(False, "different modules stubbed")
    for m in base:
        r = same_stub(base[m], other[m], m)
        if r:
            return check(False, lambda: f"k={k} rewriter={type(rewriter).__name__}: {r}\n--- rows in order ---\n{base[m]}\n--- permuted/duplicated rows, other set orders ---\n{other[m]}")
    return check(True)


def _interference(k):
    """Other stub generations: batches of traces of OTHER functions of the fixture modules.  In each batch every parameter whose
    default is None is observed with ONE type of a pool that contains the types the target's annotations are made of (scalars,
    containers, a class, a str-keyed dict) and never with None; the other parameters take the next types of the pool."""
    import inspect
    from typing import Dict, List, Set, Tuple

    pool = [int, str, List[int], Dict[str, int], F.Klass, get_type({"a": 1, "b": "s"}, k), type(None)]
    batches = []
    for i, ty in enumerate(pool[:-1]):
        batch = []
        for fn in (F.all_kinds,):
            params = [(n, p) for n, p in inspect.signature(fn).parameters.items() if n not in ("self", "cls") and p.kind not in (p.VAR_POSITIONAL, p.VAR_KEYWORD)]
            batch.append(CallTrace(fn, {n: (ty if p.default is None else pool[(i + j) % len(pool)]) for j, (n, p) in enumerate(params)}, pool[(i + 1) % len(pool)]))
        batches.append(batch)
    return batches


def runs_body(t):
    """The same rows give the same stub again after ANOTHER stub generation has run in the process (stub generation keeps no
    state that leaks from one generation into the next)."""
    k = (0, 3)[t.take(2)]
    rewriter = (MT.NoOpRewriter(), MT.DEFAULT_REWRITER)[t.take(2)]
    traces = []
    func = (F.mod_func, F.Klass.method)[t.take(2)]
    traces.append(CallTrace(func, {"a": get_type(build_value(t, G_ORD), k)}, RETS[t.take(2)]))
    first = render(traces, k, rewriter, None)
    for batch in _interference(k):
        render(batch, k, rewriter, None)
    again = render(traces, k, rewriter, None)
    if set(first) != set(again):
        return check(False, "different modules stubbed after another generation")
    for m in first:
        r = same_stub(first[m], again[m], m)
        if r:
            return check(False, lambda: f"k={k} rewriter={type(rewriter).__name__}: after another stub generation in the same process: {r}\n--- first ---\n{first[m]}\n--- again ---\n{again[m]}")
    return check(True)


tape_harness("runs", [("t", 24)], {}, runs_body, globals())


SAMESIG_FUNCS = (F.mod_func, F.unannotated, F.Klass.method)  # (a, b) twice, (self, a)
SAMESIG_TYPES = (int, F.Klass, None)  # a class of the stubbed module itself, a class of another module; None = parameter not traced


def samesig_body(t):
    """Functions whose traced signatures compare EQUAL (same names, kinds, annotations) and mention a class
    defined in the stubbed module: whatever is memoised per signature must not make one function's stub depend on
    which function was rendered before it (row order) or on an earlier generation in the same process."""
    from typing import List as _List

    rewriter = (MT.NoOpRewriter(), MT.DEFAULT_REWRITER)[t.take(2)]
    traces = []
    for func in SAMESIG_FUNCS:
        ty = SAMESIG_TYPES[t.take(len(SAMESIG_TYPES))]
        if ty is None:
            continue
        if t.take(2) == 1:
            ty = _List[ty]
        traces.append(CallTrace(func, {"a": ty}, None))
    ASSUME(len(traces) >= 2)
    base = render(traces, 0, rewriter, None)
    rest = list(traces)
    perm = []
    while rest:
        perm.append(rest.pop(t.take(len(rest)) if len(rest) > 1 else 0))
    other = render(perm, 0, rewriter, t, depth=1)
    if set(base) != set(other):
        return check(False, "different modules stubbed")
    for m in base:
        r = same_stub(base[m], other[m], m)
        if r:
            return check(False, lambda: f"rewriter={type(rewriter).__name__}: {r}\n--- rows in order ---\n{base[m]}\n--- permuted rows ---\n{other[m]}")
        try:
            parse_stub(other[m], m)
        except StubError as e:
            return check(False, lambda: f"stub of the permuted rows does not evaluate: {e}\n{other[m]}")
    return check(True)


tape_harness("samesig", [("t", 20)], {}, samesig_body, globals())
DIAMOND = (K.X1, K.Y1, K.X2, K.Y2, K.X3, K.Y3)
from typing import Dict as _D, List as _L, Tuple as _T  # noqa: E402

FAMILIES = {
    # six classes over a diamond X*(P, Q) / Y*(Q, P): RewriteLargeUnion's common-ancestor choice
    "diamond": DIAMOND,
    # six homogeneous tuple shapes over two element types: RewriteLargeUnion's Tuple[V, ...] shortcut
    "tuples": (_T[int], _T[int, int], _T[int, int, int], _T[str], _T[str, str], _T[str, str, str]),
    # one element type only: the shortcut must fire, in every order
    "tuples_same": (_T[int], _T[int, int], _T[int, int, int], _T[int, int, int, int], _T[int, int, int, int, int], _T[int, int, int, int, int, int]),
    # dict unions (RewriteConfigDict) mixed with empty containers (RemoveEmptyContainers)
    "dicts": (_D[str, int], _D[str, str], _D[str, K.A], _D[MT.Any, MT.Any], _D[str, _L[int]], _D[str, type(None)]),
    # multiple inheritance mixed with single inheritance: Arc/Box(Measured, Drawable) next to four Drawable-only classes
    "mi_mixed": (K.Arc, K.Box, K.Dot, K.Line, K.Poly, K.Ring),
    "mi_mixed2": (K.Dot, K.Arc, K.Line, K.Box, K.Poly, K.Ring),
    # plain classes with a common base plus unrelated ones
    "classes": (K.A, K.B, K.C, K.D, K.E, int, type(None)),
}


def diamond_body(t, depth=2, family=None):
    """More members than RewriteLargeUnion's limit, one trace each: the default rewriter must not make
    the stub depend on which member happens to come first (row order, set iteration order)."""
    fam = family if family is not None else tuple(FAMILIES)[t.take(len(FAMILIES))]
    traces = [CallTrace(F.mod_func, {"a": c}, None) for c in FAMILIES[fam]]
    base = render(traces, 0, MT.DEFAULT_REWRITER, None)
    rot = t.take(len(traces))
    perm = traces[rot:] + traces[:rot]
    if t.take(2) == 1:
        perm.reverse()
    other = render(perm, 0, MT.DEFAULT_REWRITER, t, depth=depth)
    r = same_stub(base[M], other[M], M)
    return check(r is None, lambda: f"{r}\n--- rows in order ---\n{base[M]}\n--- permuted rows / other set order ---\n{other[M]}")


def store_body(t, n_calls=3):
    """Through the real SQLite store: the same calls logged in another order, with one of them
    duplicated, split into batches differently -- the stub must be the same."""
    import harness.pipeline as P

    kind = ("generator", "function")[t.take(2)]
    k, rw = ((0, "NoOpRewriter"), (3, "DEFAULT_REWRITER"))[t.take(2)] if n_calls < 3 else ((0, 3)[t.take(2)], ("NoOpRewriter", "DEFAULT_REWRITER")[t.take(2)])
    args = ((1,), ({"a": 1},), ("s",))[: n_calls]
    ress = (1, "s", None)
    calls = []
    for _ in range(n_calls):
        calls.append((args[t.take(len(args))][0], ress[t.take(len(ress))]))
    # --limit: the default, or exactly the number of calls (never fewer than the distinct traces, so the limit must not bite)
    limit = (2000, n_calls)[t.take(2)]
    _rows, base, _err = P.run_pipeline(kind, calls, k, rw, "default", (), limit)
    rest = list(calls)
    perm = []
    while rest:
        perm.append(rest.pop(t.take(len(rest)) if len(rest) > 1 else 0))
    dup = t.take(n_calls + 1)
    if dup < n_calls:
        perm.insert(t.take(len(perm) + 1), calls[dup])  # the duplicate row may sit anywhere among the others
    flush_after = (t.take(len(perm)),)
    _rows2, other, _err2 = P.run_pipeline(kind, perm, k, rw, "default", flush_after, limit)
    if (base is None) != (other is None):
        return check(False, "a stub in one order, none in the other")
    r = same_stub(base, other, M)
    return check(r is None, lambda: f"{kind} k={k} {rw}: calls {calls} vs {perm} (flush after {flush_after}, limit {limit}): {r}\n--- first ---\n{base}\n--- second ---\n{other}")


tape_harness("store_order", [("t", 18)], {}, store_body, globals())
tape_harness("store_order2", [("t", 14)], {}, lambda t: store_body(t, 2), globals())
# three traces whose types make a union with an EMPTY container, a non-empty one of the same kind and a member that itself
# contains a union (rewriters that walk the members must give the same result whatever the member order)
G_ORDU = ChoiceGrammar("ordu", (lambda: [], lambda: [1], lambda: {"a": 1, "b": "s"}, lambda: set(), lambda: None))


def orderu_body(t):
    """Default rewriter, k = 0: the three rows in every order (sets iterate in insertion order here, so the members of the
    union the rewriters see follow the order of the rows)."""
    vals = [build_value(t, G_ORDU) for _ in range(3)]
    traces = [CallTrace(F.mod_func, {"a": get_type(v, 0)}, None) for v in vals]
    base = render(traces, 0, MT.DEFAULT_REWRITER, None)
    rest, perm = list(traces), []
    while rest:
        perm.append(rest.pop(t.take(len(rest)) if len(rest) > 1 else 0))
    other = render(perm, 0, MT.DEFAULT_REWRITER, None)
    for m in base:
        r = same_stub(base[m], other[m], m)
        if r:
            return check(False, lambda: f"DEFAULT_REWRITER, rows {[show(v) for v in vals]} in another order: {r}\n--- rows in order ---\n{base[m]}\n--- permuted ---\n{other[m]}")
    return check(True)


tape_harness("order3u", [("t", 6)], {}, orderu_body, globals())
tape_harness("order3", [("t", 48)], {}, lambda t: order_body(t, 3, G_ORD3), globals())
tape_harness("order2q", [("t", 30)], {}, lambda t: order_body(t, 2, G_ORD, True, False, RETS[:2]), globals())
tape_harness("order2", [("t", 30)], {}, lambda t: order_body(t, 2, G_ORD2), globals())
tape_harness("diamond1", [("t", 18)], {}, lambda t: diamond_body(t, 1), globals())
tape_harness("diamond", [("t", 18)], {}, diamond_body, globals())
_B = {"samesig": samesig_body, "order3": lambda t: order_body(t, 3, G_ORD3), "order2": lambda t: order_body(t, 2, G_ORD2), "order2q": lambda t: order_body(t, 2, G_ORD, True, False, RETS[:2]),
      "diamond": diamond_body, "diamond1": lambda t: diamond_body(t, 1), "store_order": store_body, "store_order2": lambda t: store_body(t, 2), "runs": runs_body,
      "order3u": orderu_body}


def shards(name, prefix=5):
    from engine.verdicts import enumerate_prefixes

    return [{f"t{j}": v for j, v in enumerate(p)} for p in enumerate_prefixes(_B[name], prefix)]


def describe(name, args):
    ks = sorted((k for k in args if k[0] == "t" and k[1:].isdigit()), key=lambda s: int(s[1:]))
    return {"harness": name, "tape": [args[k] for k in ks][:24]}
