"""C08 -- types and call traces survive serialisation unchanged.

Symbolic: value tapes (inferred types, every k), type tapes (grammar / rewritten forms), the
fixture-function selector, presence selectors for return / yield (absent, NoneType, a type).
Real code: type_to_dict, typed_dict_to_dict, type_to_json, type_from_json, type_from_dict,
typed_dict_from_dict, arg_types_to/from_json, maybe_encode/decode_type, CallTraceRow.from_trace /
to_trace, get_func_in_module, get_name_in_module.  json and importlib are C / IO boundaries:
the data is concrete per path by the time it reaches them.
"""
from __future__ import annotations

from harness.common import ASSUME, FAIL, PASS, check, tape_harness  # noqa: F401
from harness import oracles as O
from harness.types import TG_QUICK, TGrammar, build_type, build_union_type
from harness.values import G_QUICK, G_SMALL, G_TINY, Grammar, build_value, show
from vfix import funcs as F

from monkeytype.encoding import CallTraceRow, type_from_json, type_to_json
from monkeytype.tracing import CallTrace
from monkeytype.typing import DEFAULT_REWRITER, get_type, make_typed_dict, shrink_types

FUNCTIONS = [
    "monkeytype.encoding.type_to_dict / typed_dict_to_dict / type_to_json",
    "monkeytype.encoding.type_from_dict / typed_dict_from_dict / type_from_json",
    "monkeytype.encoding.arg_types_to_json / arg_types_from_json / maybe_encode_type / maybe_decode_type",
    "monkeytype.encoding.CallTraceRow.from_trace / to_trace",
    "monkeytype.util.get_func_in_module / get_name_in_module",
    "monkeytype.typing.get_type / shrink_types / DEFAULT_REWRITER (producers of the types)",
]

TG_ENC = TGrammar(atoms=("int", "str", "NoneType", "Any", "B", "Inner"),
                  generics=("List", "Dict", "DefaultDict", "Set", "Tuple", "TupleVar", "TupleEmpty", "Type", "Callable", "IteratorAny", "Generator",
                            "Union", "TD"), depth=2, max_union=2, max_tuple=2, elem_atoms=("int", "NoneType", "Inner"), td_keys=("a", "b"))
TG_ENC1 = TGrammar(atoms=("int", "str", "NoneType", "Any", "B", "Inner", "Color", "Concrete"), generics=TG_ENC.generics, depth=1, max_union=3,
                   elem_atoms=("int", "NoneType", "Any", "Inner", "B", "Color"))


def _rebuild(t):
    """An independently constructed, structurally identical type (fresh TypedDict classes, fields
    inserted in the opposite order)."""
    if O.is_anon_td(t):
        r, o = O.td_fields(t)
        return make_typed_dict(required_fields={k: _rebuild(r[k]) for k in reversed(list(r))},
                               optional_fields={k: _rebuild(o[k]) for k in reversed(list(o))})
    if O.is_union(t) or (O.is_generic(t) and O.args_of(t)):
        a = O.args_of(t)
        if any(x is Ellipsis for x in a):
            return t.__origin__[_rebuild(a[0]), ...] if False else t.copy_with((_rebuild(a[0]), Ellipsis))
        return t.copy_with(tuple(_rebuild(x) for x in a))
    return t


def _roundtrip(typ):
    js = type_to_json(typ)
    back = type_from_json(js)
    if not O.struct_eq(back, typ):
        return f"decode(encode(T)) = {O.show_type(back)} != T = {O.show_type(typ)}"
    twin = _rebuild(typ)
    if not O.struct_eq(twin, typ):
        return None  # the rebuilt twin is not comparable (should not happen); determinism not judged
    js2 = type_to_json(twin)
    if js2 != js:
        return f"two structurally identical types encode differently: {js} vs {js2}"
    return None


def rt_types_body(t, g):
    typ = build_type(t, g)
    r = _roundtrip(typ)
    return check(r is None, lambda: r)


def rt_inferred_body(ta, tb, k, g: Grammar):
    ASSUME(k >= 0)
    rewrite = ta.take(2) == 1
    vals = [build_value(ta, g), build_value(tb, g)]
    # encoding must not depend on what was encoded (and freed) before: round-trip each value's own
    # type in sequence, releasing it in between, then the merged type
    for v in vals:
        own = get_type(v, k)
        r = _roundtrip(own)
        if r is not None:
            return check(False, lambda: f"{r} (value {show(v)} encoded after {[show(x) for x in vals[:vals.index(v)]]}, k={int(k)})")
        del own
    typ = shrink_types([get_type(v, k) for v in vals], k)
    if rewrite:
        typ = DEFAULT_REWRITER.rewrite(typ)
    r = _roundtrip(typ)
    return check(r is None, lambda: f"{r} (values {[show(v) for v in vals]}, k={int(k)})")


TRACE_FUNCS = (
    F.mod_func, F.Klass.method, F.Klass.__dict__["cmethod"].__func__, F.Klass.__dict__["smethod"].__func__, F.Klass.__dict__["prop"].fget,
    F.wrapped_func.__wrapped__, F.Base.inherited, F.Klass.Nested.nested_method, F.Klass.Nested.Deeper.deep_method, F.gen_func, F.coro_func,
    F.kw_only, F.double_wrapped.__wrapped__.__wrapped__, F.Deco.__dict__["build"].__func__.__wrapped__.__wrapped__,
)
TG_SLOT = TGrammar(atoms=("int", "NoneType", "B", "Inner"), generics=("List", "TD", "TupleEmpty", "Union"), depth=1, max_union=2,
                   elem_atoms=("int", "NoneType"), td_keys=("a",))


ARG0_TYPES = (int, type(None), F.Klass.Nested.Deeper, O.typing.List[int], O.typing.Tuple[()], O.typing.Optional[F.B],
              make_typed_dict(required_fields={"a": make_typed_dict(optional_fields={"b": int})}), O.typing.Type[F.A],
              O.typing.Dict[str, O.typing.Any],
              make_typed_dict(required_fields={"b": int, "a": str}))  # two keys: the insertion order must not reach the stored row


def rt_trace_body(t):
    func = TRACE_FUNCS[t.take(len(TRACE_FUNCS))]
    code = func.__code__
    names = code.co_varnames[: code.co_argcount + code.co_kwonlyargcount]
    arg_types = {}
    for i, n in enumerate(names):
        if i >= 2 or t.take(2) == 0:  # the first two arguments may be unbound
            arg_types[n] = ARG0_TYPES[t.take(len(ARG0_TYPES))] if i == 0 else int

    def slot():
        c = t.take(6)  # absent / NoneType / one of four types
        if c == 0:
            return None
        if c == 1:
            return type(None)
        return (int, F.Klass.Nested, make_typed_dict(required_fields={"a": int}, optional_fields={"b": type(None)}), O.typing.List[F.B])[c - 2]

    ret, yld = slot(), slot()
    trace = CallTrace(func, arg_types, ret, yld)
    row = CallTraceRow.from_trace(trace)
    row2 = CallTraceRow.from_trace(CallTrace(func, {n: _rebuild(x) for n, x in reversed(list(arg_types.items()))},
                                             None if ret is None else _rebuild(ret), None if yld is None else _rebuild(yld)))
    cols = lambda r: (r.module, r.qualname, r.arg_types, r.return_type, r.yield_type)  # noqa: E731
    if cols(row) != cols(row2):
        return check(False, lambda: f"two equal traces of {func.__qualname__} serialise differently: {row.arg_types} / {row2.arg_types}")
    back = row.to_trace()
    if back.func is not func:
        return check(False, lambda: f"trace of {func.__module__}.{func.__qualname__} decodes to {back.func!r}")
    if set(back.arg_types) != set(arg_types) or not all(O.struct_eq(back.arg_types[n], arg_types[n]) for n in arg_types):
        return check(False, lambda: f"argument types of {func.__qualname__} changed: {back.arg_types} vs {arg_types}")
    for what, a, b in (("return", back.return_type, ret), ("yield", back.yield_type, yld)):
        if (a is None) != (b is None) or (b is not None and not O.struct_eq(a, b)):
            return check(False, lambda: f"{what} type of {func.__qualname__}: {O.show_type(b)} decoded as {O.show_type(a)}")
    return check(True)


tape_harness("rt_types_enc1", [("t", 12)], {}, lambda t: rt_types_body(t, TG_ENC1), globals())
tape_harness("rt_types_enc2", [("t", 30)], {}, lambda t: rt_types_body(t, TG_ENC), globals())
tape_harness("rt_inferred_tiny", [("a", 8), ("b", 7)], {"k": "int"}, lambda a, b, k: rt_inferred_body(a, b, k, G_TINY), globals())
tape_harness("rt_inferred_small", [("a", 8), ("b", 7)], {"k": "int"}, lambda a, b, k: rt_inferred_body(a, b, k, G_SMALL), globals())
tape_harness("rt_inferred_quick", [("a", 8), ("b", 7)], {"k": "int"}, lambda a, b, k: rt_inferred_body(a, b, k, G_QUICK), globals())
tape_harness("rt_trace", [("t", 16)], {}, rt_trace_body, globals())

_BUILD = {
    "rt_types_enc1": lambda t: rt_types_body(t, TG_ENC1),
    "rt_types_enc2": lambda t: rt_types_body(t, TG_ENC),
    "rt_trace": rt_trace_body,
}
_VG = {"rt_inferred_tiny": G_TINY, "rt_inferred_small": G_SMALL, "rt_inferred_quick": G_QUICK}


def shards(name, prefix=3):
    from engine.verdicts import enumerate_prefixes

    if name in _BUILD:
        return [{f"t{j}": v for j, v in enumerate(p)} for p in enumerate_prefixes(_BUILD[name], prefix)]
    g = _VG[name]
    pa = enumerate_prefixes(lambda t: (t.take(2), build_value(t, g)), prefix)
    pb = enumerate_prefixes(lambda t: build_value(t, g), max(1, prefix - 1))
    return [dict({f"a{j}": v for j, v in enumerate(x)}, **{f"b{j}": v for j, v in enumerate(y)}) for x in pa for y in pb]


def describe(name, args):
    from engine.verdicts import Tape

    def tape(p):
        ks = sorted((k for k in args if k.startswith(p) and k[len(p):].isdigit()), key=lambda s: int(s[len(p):]))
        return Tape([args[k] for k in ks])

    if name.startswith("rt_types"):
        typ = build_type(tape("t"), TG_ENC1 if name.endswith("1") else TG_ENC)
        return {"type": O.show_type(typ), "json": type_to_json(typ)}
    if name.startswith("rt_inferred"):
        ta, tb = tape("a"), tape("b")
        rw = ta.take(2) == 1
        vals = [build_value(ta, _VG[name]), build_value(tb, _VG[name])]
        typ = shrink_types([get_type(v, args["k"]) for v in vals], args["k"])
        return {"values": [show(v) for v in vals], "k": args["k"], "default_rewriter_applied": rw, "type": O.show_type(typ)}
    t = tape("t")
    return {"function": TRACE_FUNCS[t.take(len(TRACE_FUNCS))].__qualname__, "tape": t.xs[:10]}
