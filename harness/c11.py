"""C11 -- rendered annotations denote the inferred type and stubs are self-contained.

(A) name-collision kernel: classes living in modules whose dotted names are chosen by the solver
    from all dotted identifiers over {a, b, .} up to a length bound (enumerated-names mode: symbolic
    indices, concrete strings inside the real code), placed top-level / nested / named like their
    module, in several container contexts; oracle = the independently composed stub text.
(B) translation validation over the type grammar: a type is placed at a parameter / return / yield
    / TypedDict-field position of a fixture function, the module stub is rendered by the real code
    and evaluated by the reference stub evaluator using only names the stub provides.
"""
from __future__ import annotations

import inspect
from typing import Any, Callable, DefaultDict, Dict, Generator, Iterator, List, Optional, Set, Tuple, Type, Union

from harness.common import ASSUME, FAIL, PASS, check, tape_harness  # noqa: F401
from harness import oracles as O
from harness.known import listed
from harness.stubeval import StubError, parse_stub
from harness.types import TGrammar, build_type
from vfix import classes as K
from vfix import funcs as F
from vfix import utils as U1
from vfix.pkg import utils as U2

import io as _io_mod
from monkeytype.stubs import (ExistingAnnotationStrategy, FunctionDefinition, FunctionKind, build_module_stubs,
                              build_module_stubs_from_traces)
from monkeytype.tracing import CallTrace
from monkeytype.typing import NoOpRewriter, make_typed_dict

FUNCTIONS = [
    "monkeytype.stubs.RenderAnnotation (rewrite, generic_rewrite, rewrite_Union, make_builtin_tuple, make_container_type)",
    "monkeytype.stubs.render_annotation / render_parameter / render_signature",
    "monkeytype.stubs.FunctionStub.render (module-prefix stripping)",
    "monkeytype.stubs.get_imports_for_annotation / get_imports_for_signature / ImportBlockStub.render",
    "monkeytype.stubs.ReplaceTypedDictsWithStubs",
    "monkeytype.stubs.build_module_stubs / build_module_stubs_from_traces / ModuleStub.render / ClassStub.render / AttributeStub.render",
    "monkeytype.stubs.FunctionDefinition.from_callable_and_traced_types / get_updated_definition / shrink_traced_types",
    "monkeytype.typing.GenericTypeRewriter._rewrite_container (container kinds descended into)",
]


# ================================================================ (A) name-collision kernel
def dotted_names(max_len, alphabet="ab"):
    """All dotted identifiers over the alphabet with total length <= max_len."""
    out = []

    def rec(cur):
        if cur and not cur.endswith("."):
            out.append(cur)
        if len(cur) >= max_len:
            return
        for ch in alphabet:
            rec(cur + ch)
        if cur and not cur.endswith(".") and len(cur) + 1 < max_len:
            rec(cur + ".")

    rec("")
    return sorted(set(out), key=lambda s: (len(s), s))


NAMES3 = dotted_names(3)
NAMES4 = dotted_names(4)
PLACEMENTS = ("top", "nested", "like_module", "like_module_nested")
CONTEXTS = ("bare", "List", "Optional", "DictValue")


def _mk_class(module, placement, tag):
    """A fresh class object that claims to live in `module` (top-level `C<tag>`, nested `O<tag>.I`,
    or named like the last segment of its module)."""
    if placement == "top":
        cls = type("C" + tag, (), {})
    elif placement == "nested":
        cls = type("I", (), {})
        cls.__qualname__ = "O" + tag + ".I"
    elif placement == "like_module":
        last = module.split(".")[-1]
        cls = type(last, (), {})
    else:  # a class nested in a class that is named like the last segment of its module
        last = module.split(".")[-1]
        cls = type("I", (), {})
        cls.__qualname__ = last + ".I"
    cls.__module__ = module
    return cls


def _wrap(ctx, cls):
    if ctx == "bare":
        return cls
    if ctx == "List":
        return List[cls]
    if ctx == "Optional":
        return Optional[cls]
    return Dict[str, cls]


def _expected_text(ctx, cls):
    q = cls.__qualname__
    return {"bare": q, "List": f"List[{q}]", "Optional": f"Optional[{q}]", "DictValue": f"Dict[str, {q}]"}[ctx]


def ambiguous_dotted_text(cls, modules):
    """Known finding C11-ambiguous-dotted-name: '<module>.<qualname>' of cls is, as text, also
    '<longer imported module>.<rest>' -- the two parses of the dotted name cannot be told apart by a
    renderer that strips module prefixes textually."""
    full = cls.__module__ + "." + cls.__qualname__
    return any(m != cls.__module__ and len(m) > len(cls.__module__) and full.startswith(m + ".") for m in modules)


def collide_body(t, i1, i2, names, contexts=CONTEXTS, honour_known=True):
    n = len(names)
    ASSUME(0 <= i1)
    ASSUME(i1 < n)
    ASSUME(0 <= i2)
    ASSUME(i2 < n)
    m1 = m2 = None
    for j in range(n):  # solver-chosen indices -> concrete names
        if i1 == j:
            m1 = names[j]
        if i2 == j:
            m2 = names[j]
    p1, p2 = PLACEMENTS[t.take(len(PLACEMENTS))], PLACEMENTS[t.take(len(PLACEMENTS))]
    c1, c2 = contexts[t.take(len(contexts))], contexts[t.take(len(contexts))]
    target = "zz.target"
    cls1, cls2 = _mk_class(m1, p1, "1"), _mk_class(m2, p2, "2")
    ASSUME(not (m1 == m2 and cls1.__qualname__.split(".")[0] == cls2.__qualname__.split(".")[0] and cls1 is not cls2))
    if honour_known and listed("C11-ambiguous-dotted-name"):
        ASSUME(not ambiguous_dotted_text(cls1, (m1, m2)) and not ambiguous_dotted_text(cls2, (m1, m2)))
    sig = inspect.Signature(
        [inspect.Parameter("x", inspect.Parameter.POSITIONAL_OR_KEYWORD, annotation=_wrap(c1, cls1)),
         inspect.Parameter("y", inspect.Parameter.POSITIONAL_OR_KEYWORD, annotation=_wrap(c2, cls2))],
        return_annotation=cls1)
    entry = FunctionDefinition(target, "f", FunctionKind.MODULE, sig)
    stub = build_module_stubs([entry])[target].render()
    want_def = f"def f(x: {_expected_text(c1, cls1)}, y: {_expected_text(c2, cls2)}) -> {cls1.__qualname__}: ..."
    got_def = stub.split("\n\n\n")[-1]
    if got_def != want_def:
        return check(False, lambda: f"modules {m1!r}/{m2!r} ({p1}/{p2}, {c1}/{c2}): rendered {got_def!r}, the types are {want_def!r}")
    # every class must be imported by the root name of its qualname from its own module
    import_lines = stub.split("\n\n\n")[0] if "\n\n\n" in stub else ""
    provided = _parse_import_block(import_lines)
    for cls in (cls1, cls2):
        root = cls.__qualname__.split(".")[0]
        if (cls.__module__, root) not in provided:
            return check(False, lambda: f"modules {m1!r}/{m2!r}: {cls.__module__}.{cls.__qualname__} is used but the stub does not import {root!r} from {cls.__module__!r}: {import_lines!r}")
    return check(True)


def _parse_import_block(text):
    import ast

    out = set()
    try:
        tree = ast.parse(text)
    except SyntaxError:
        return out
    for st in tree.body:
        if isinstance(st, ast.ImportFrom):
            for al in st.names:
                out.add((st.module, al.name))
    return out


tape_harness("collide3q", [("t", 4)], {"i1": "int", "i2": "int"}, lambda t, i1, i2: collide_body(t, i1, i2, NAMES3, ("bare", "List")), globals())
tape_harness("collide3", [("t", 4)], {"i1": "int", "i2": "int"}, lambda t, i1, i2: collide_body(t, i1, i2, NAMES3), globals())
tape_harness("collide4", [("t", 4)], {"i1": "int", "i2": "int"}, lambda t, i1, i2: collide_body(t, i1, i2, NAMES4), globals())
# witness harness for the known finding: the class of inputs is NOT assumed away here
tape_harness("collide3_witness", [("t", 4)], {"i1": "int", "i2": "int"}, lambda t, i1, i2: collide_body(t, i1, i2, NAMES3, CONTEXTS, False), globals())


# ================================================================ (B) translation validation
TG_STUB = TGrammar(
    atoms=("int", "str", "NoneType", "Any", "A", "Inner"),
    generics=("List", "Set", "Dict", "DefaultDict", "Tuple", "TupleVar", "TupleEmpty", "Type", "Callable", "IteratorAny", "Generator", "Union", "TD"),
    depth=2, max_union=2, max_tuple=2, elem_atoms=("int", "NoneType", "Inner"), td_keys=("a", "b"))
TG_STUB1 = TGrammar(atoms=TG_STUB.atoms, generics=TG_STUB.generics, depth=1, max_union=3, elem_atoms=("int", "NoneType", "Any", "Inner", "A"))
# classes spread over modules whose names are suffixes of one another, nested classes, a class
# named like its module, an _io type, a class of the target module itself
EXTRA_CLASSES = (U1.U, U2.V, U2.V.W, U1.utils, F.Klass, F.Klass.Nested, _io_mod.StringIO, K.Outer.Inner.Deep)
POSITIONS = ("param", "param_none_default", "return", "yield", "yield_and_return", "method_param", "td_field")
HOST_CONTAINERS = ("bare", "List", "DictValue", "DefaultDictValue", "TupleElem", "SetElem", "Optional", "UnionMember", "GeneratorYield", "TypeArg")


def _place(ctx, t):
    if ctx == "bare":
        return t
    if ctx == "List":
        return List[t]
    if ctx == "DictValue":
        return Dict[str, t]
    if ctx == "DefaultDictValue":
        return DefaultDict[str, t]
    if ctx == "TupleElem":
        return Tuple[int, t]
    if ctx == "SetElem":
        return Set[t]
    if ctx == "Optional":
        return Optional[t]
    if ctx == "UnionMember":
        return Union[int, t]
    if ctx == "GeneratorYield":
        return Generator[t, None, int]
    raise AssertionError(ctx)


def render_with(typ, position):
    """Run the real stub pipeline with `typ` at `position`; returns (stub text, expected types)."""
    func = F.mod_func
    args, ret, yld = {}, None, None
    expected = {}
    if position == "param":
        args = {"a": typ}
        expected = {("mod_func", "a"): typ}
    elif position == "param_none_default":
        func = F.defaults  # (a, b=1, c=None)
        args = {"c": typ}
        expected = {("defaults", "c"): typ if O.is_union(typ) and type(None) in typ.__args__ else Optional[typ]}
    elif position == "return":
        ret = typ
        expected = {("mod_func", "return"): typ}
    elif position == "yield":
        func = F.gen_func
        yld = typ
        expected = {("gen_func", "return"): Iterator[typ]}
    elif position == "yield_and_return":
        func = F.gen_returning
        yld, ret = typ, int
        expected = {("gen_returning", "return"): Generator[typ, None, int]}
    elif position == "method_param":
        func = F.Klass.Nested.nested_method if False else F.Klass.method
        args = {"a": typ}
        expected = {("Klass.method", "a"): typ}
    elif position == "td_field":
        td = make_typed_dict(required_fields={"f": typ}, optional_fields={"g": int})
        args = {"a": td}
        expected = {("mod_func", "a"): td}
    trace = CallTrace(func, args, ret, yld)
    stubs = build_module_stubs_from_traces([trace], 100, ExistingAnnotationStrategy.IGNORE, NoOpRewriter())
    return stubs[func.__module__].render(), expected, func


def validate_stub(text, expected, module):
    try:
        info = parse_stub(text, module)
    except StubError as e:
        return f"{e}"
    for (qual, slot), want in expected.items():
        fis = info.functions.get(qual)
        if not fis or len(fis) != 1:
            return f"function {qual} appears {len(fis or [])} times in the stub"
        fi = fis[0]
        got = fi.returns if slot == "return" else fi.annotations.get(slot)
        if got is None:
            return f"{qual}: no annotation at {slot}"
        if not O.struct_eq(got, want, unordered_unions=True):
            return f"{qual} {slot}: the stub's annotation denotes {O.show_type(got)}, the type is {O.show_type(want)}"
    return None


def tv_body(t, g, contexts=HOST_CONTAINERS, positions=POSITIONS, extra=True):
    position = positions[t.take(len(positions))]
    ctx = contexts[t.take(len(contexts))]
    if ctx == "TypeArg":
        typ = Type[EXTRA_CLASSES[t.take(len(EXTRA_CLASSES))]]
    elif extra and t.take(2) == 1:
        typ = _place(ctx, EXTRA_CLASSES[t.take(len(EXTRA_CLASSES))])
    else:
        typ = _place(ctx, build_type(t, g))
    text, expected, func = render_with(typ, position)
    r = validate_stub(text, expected, func.__module__)
    return check(r is None, lambda: f"{r} [type {O.show_type(typ)} at {position}]\n--- stub ---\n{text}")


Q_CTX = ("bare", "List", "DefaultDictValue", "Optional", "TypeArg")
Q_POS = ("param", "param_none_default", "yield", "method_param", "td_field")
tape_harness("tv_quick", [("t", 16)], {}, lambda t: tv_body(t, TG_STUB1, Q_CTX, Q_POS), globals())
tape_harness("tv_full1", [("t", 16)], {}, lambda t: tv_body(t, TG_STUB1), globals())
tape_harness("tv_deep", [("t", 36)], {}, lambda t: tv_body(t, TG_STUB), globals())
_TV = {"tv_quick": (TG_STUB1, Q_CTX, Q_POS), "tv_full1": (TG_STUB1, HOST_CONTAINERS, POSITIONS), "tv_deep": (TG_STUB, HOST_CONTAINERS, POSITIONS)}


def shards(name, prefix=3):
    from engine.verdicts import enumerate_prefixes

    if name.startswith("collide"):
        names = NAMES3 if name.startswith("collide3") else NAMES4
        step = 1 if len(names) <= 20 else 4
        return [{"i1": i} for i in range(len(names))] if step == 1 else [{"i1": i, "t0": p} for i in range(len(names)) for p in range(len(PLACEMENTS))]
    g, cx, ps = _TV[name]
    return [{f"t{j}": v for j, v in enumerate(p)} for p in enumerate_prefixes(lambda t: tv_body(t, g, cx, ps), prefix)]


def describe(name, args):
    from engine.verdicts import Tape

    ks = sorted((k for k in args if k[0] == "t" and k[1:].isdigit()), key=lambda s: int(s[1:]))
    t = Tape([args[k] for k in ks])
    if name.startswith("collide"):
        names = NAMES3 if name.startswith("collide3") else NAMES4
        cxs = ("bare", "List") if name == "collide3q" else CONTEXTS
        i1, i2 = args["i1"], args["i2"]
        ok = 0 <= i1 < len(names) and 0 <= i2 < len(names)
        return {"m1": names[i1] if ok else i1, "m2": names[i2] if ok else i2,
                "placements": [PLACEMENTS[t.take(len(PLACEMENTS))], PLACEMENTS[t.take(len(PLACEMENTS))]], "contexts": [cxs[t.take(len(cxs))], cxs[t.take(len(cxs))]]}
    g, cx, ps = _TV[name]
    position = ps[t.take(len(ps))]
    ctx = cx[t.take(len(cx))]
    if ctx == "TypeArg":
        typ = Type[EXTRA_CLASSES[t.take(len(EXTRA_CLASSES))]]
    elif t.take(2) == 1:
        typ = _place(ctx, EXTRA_CLASSES[t.take(len(EXTRA_CLASSES))])
    else:
        typ = _place(ctx, build_type(t, g))
    text, _exp, _f = render_with(typ, position)
    return {"position": position, "type": O.show_type(typ), "stub": text}
