"""C17 (claimed in part): only code the filter admits, outside __main__, is recorded.

 * gate      -- CallTracer.__call__ with a custom filter whose verdict is a symbolic bool, and the
                `trace_types` name exclusion (the C02 step harness also covers admit=False);
 * mainmod   -- CallTraceStoreLogger.log/flush with func.__module__ a symbolic str;
 * deffilter -- default_code_filter (cache bypassed) on file names composed from a library-root
                selector and path components, allow-list of 0..3 names, against an independent
                string-based path predicate.
"""
from __future__ import annotations

import os

from harness.common import ASSUME, FAIL, PASS, check, tape_harness  # noqa: F401
from engine import verdicts as _V
from harness.frames import AT_RAISE, AT_RETURN, REPR_MSG, CodeView, FakeFrame, ListLogger, RETURN_OPS, in_flight, representation_ok, seed_function
from vfix import funcs as F

import monkeytype.config as MC
from monkeytype.db.base import CallTraceStore, CallTraceStoreLogger
from monkeytype.tracing import CallTrace, CallTracer

FUNCTIONS = [
    "monkeytype.tracing.CallTracer.__call__ (filter gate, trace_types exclusion)",
    "monkeytype.db.base.CallTraceStoreLogger.log / flush",
    "monkeytype.config.default_code_filter (__wrapped__, lru_cache bypassed)",
    "monkeytype.config._startswith",
]


# ---------------------------------------------------------------- gate
def gate_body(t, admit, admit2, with_filter):
    """Two DIFFERENT code objects that share file name and function name (e.g. Reader.run and
    Writer.run) with independent filter verdicts, called under one tracer in either order."""
    if not representation_ok():
        return _V.INCONCLUSIVE(REPR_MSG)
    logger = ListLogger()
    name = (None, "trace_types")[t.take(2)]
    func = (F.mod_func, F.gen_func)[t.take(2)]
    cv1, cv2 = CodeView(func.__code__, name=name), CodeView(func.__code__, name=name)
    verdict = {id(cv1): admit, id(cv2): admit2}

    def code_filter(code):
        return verdict[id(code)]

    tracer = CallTracer(logger, 0, code_filter if with_filter else None, None)
    order = (cv1, cv2) if t.take(2) == 0 else (cv2, cv1)
    nparams = func.__code__.co_argcount
    recorded = {}
    if t.take(2) == 1:
        return _recycled_gate(func, name, admit, admit2, with_filter)
    for cv in order:
        fr = FakeFrame(cv, {n: 1 for n in func.__code__.co_varnames[:nparams]})
        seed_function(tracer, cv, func)
        before = len(logger.traces)
        fr.f_lasti = AT_RAISE
        tracer(fr, "call", None)
        started = in_flight(tracer, fr)
        fr.f_lasti = AT_RETURN
        tracer(fr, "return", 1)
        recorded[id(cv)] = (started, len(logger.traces) == before + 1)
    for cv, adm in ((cv1, admit), (cv2, admit2)):
        want = (name != "trace_types") and (adm or not with_filter)
        started, rec = recorded[id(cv)]
        if started != want or rec != want:
            return check(False, lambda: f"verdicts ({bool(admit)}, {bool(admit2)}) with_filter={bool(with_filter)} co_name={cv.co_name} order={'12' if order[0] is cv1 else '21'}: "
                                        f"code #{1 if cv is cv1 else 2} started={started} recorded={rec}, expected {want}")
    return check(True)


def _recycled_gate(func, name, admit, admit2, with_filter):
    """Code objects die and new ones appear during one tracing session (modules unloaded / reloaded): the first
    code object and its frame are dropped before the second one is created, so the interpreter is free to give
    the second one the first one's address.  Verdicts must follow the code object, not its address."""
    logger = ListLogger()
    verdicts = {}

    def code_filter(code):
        return verdicts[code.tag]

    tracer = CallTracer(logger, 0, code_filter if with_filter else None, None)
    nparams = func.__code__.co_argcount
    results = []
    old_id, spare = None, []
    for tag, adm in (("first", admit), ("second", admit2)):
        verdicts[tag] = adm
        cv = CodeView(func.__code__, name=name)
        # adversarial allocator: look for the allocation that lands on the dead code object's address
        while old_id is not None and id(cv) != old_id and len(spare) < 300:
            spare.append(cv)
            cv = CodeView(func.__code__, name=name)
        cv.tag = tag
        fr = FakeFrame(cv, {n: 1 for n in func.__code__.co_varnames[:nparams]})
        want = (name != "trace_types") and (bool(adm) or not with_filter)
        if want:
            seed_function(tracer, cv, func)  # (a rejected code object never reaches the function cache)
        before = len(logger.traces)
        fr.f_lasti = AT_RAISE
        tracer(fr, "call", None)
        started = in_flight(tracer, fr)
        fr.f_lasti = AT_RETURN
        tracer(fr, "return", 1)
        results.append((tag, started, len(logger.traces) == before + 1, want))
        if want:
            from harness.frames import forget_function

            forget_function(tracer, cv)  # the module was unloaded: nothing else refers to its code
        old_id = id(cv)
        del cv, fr
    for tag, started, rec, want in results:
        if started != want or rec != want:
            return check(False, lambda: f"recycled code objects, verdicts ({bool(admit)}, {bool(admit2)}) with_filter={bool(with_filter)}: "
                                        f"{tag} code object started={started} recorded={rec}, expected {want}")
    return check(True)


tape_harness("gate", [("t", 4)], {"admit": "bool", "admit2": "bool", "with_filter": "bool"}, gate_body, globals())


# ---------------------------------------------------------------- __main__ exclusion
class RecordingStore(CallTraceStore):
    def __init__(self):
        self.batches = []

    def add(self, traces):
        self.batches.append(list(traces))

    def filter(self, module, qualname_prefix=None, limit=2000):
        return []

    def __ch_deep_realize__(self, memo):
        return self


class FuncLike:
    """Only __module__ matters to the logger; a symbolic str can be stored in it."""

    def __init__(self, module):
        self.__module__ = module
        self.__qualname__ = "f"


def mainmod_body(m1, m2):
    ASSUME(len(m1) <= 9)
    ASSUME(len(m2) <= 9)
    store = RecordingStore()
    lg = CallTraceStoreLogger(store)
    t1 = CallTrace(FuncLike(m1), {})
    t2 = CallTrace(FuncLike(m2), {})
    lg.log(t1)
    lg.log(t2)
    lg.flush()
    want = [tr for tr, m in ((t1, m1), (t2, m2)) if m != "__main__"]
    if len(store.batches) != 1:
        return check(False, "flush did not hand exactly one batch to the store")
    got = store.batches[0]
    ok = len(got) == len(want) and all(a is b for a, b in zip(got, want))
    if not ok:
        return check(False, lambda: f"modules ({str(m1)!r}, {str(m2)!r}): stored {len(got)} trace(s), expected {len(want)}")
    lg.flush()
    return check(len(store.batches) == 2 and store.batches[1] == [], "flushed traces were handed to the store again")


tape_harness("mainmod", [], {"m1": "str", "m2": "str"}, mainmod_body, globals())


# ---------------------------------------------------------------- default filter
COMPONENTS = ("proj", "pkg", "site-packages", "json", "os", "lib", "python3.12", "x<y", "mod")
STEMS = ("mod", "pkg", "json", "__init__", "site-packages", "proj")
SYNTHETIC = ("", "<string>", "<frozen importlib._bootstrap>", "<stdin>")
ALLOW = ("pkg", "mod", "json", "proj", "site-packages", "nomatch", "")


_LINK = None


def _symlinked_root():
    """A symbolic link (created once per process, under the system temp dir) to a library root."""
    global _LINK
    if _LINK is None:
        import atexit
        import shutil
        import tempfile

        d = tempfile.mkdtemp(prefix="verif_c17_")
        os.symlink(str(MC.LIB_PATHS[0]), os.path.join(d, "liblink"))
        # a user-directory FILE that is itself a link to a standard-library source file (a vendored module)
        os.symlink(os.path.join(str(MC.LIB_PATHS[0]), "colorsys.py"), os.path.join(d, "vendored_colorsys.py"))
        atexit.register(shutil.rmtree, d, True)
        _LINK = os.path.join(os.path.realpath(d), "liblink")
    return _LINK


def _file_link():
    return os.path.join(os.path.dirname(_symlinked_root()), "vendored_colorsys.py")


def _roots():
    roots = [str(p) for p in MC.LIB_PATHS]
    extra = []
    for r in roots:
        extra.append(r + "-extra")  # textual extension of a library root: NOT inside it
        extra.append(os.path.dirname(r))  # the parent of a library root
    return roots, extra + ["/tmp/verif_c17_project", "/srv", _symlinked_root()]


def _split(path):
    return [c for c in path.split("/") if c]


def reference_filter(filename, allow):
    """Independent, string-based statement of the property."""
    if not filename or filename[0] == "<":
        return False
    link = _symlinked_root()
    if filename == _file_link():
        filename = os.path.join(str(MC.LIB_PATHS[0]), "colorsys.py")  # what the file link resolves to
    if filename == link or filename.startswith(link + "/"):
        filename = str(MC.LIB_PATHS[0]) + filename[len(link):]  # what the link resolves to
    parts = _split(filename)
    lib_roots = [_split(r) for r in _roots()[0]]
    under = None
    for r in lib_roots:
        if parts[: len(r)] == r and len(parts) > len(r):
            under = r
            break
    if allow is None:
        return under is None
    rel = parts[len(under):] if under is not None else parts
    stem = rel[-1]
    if "." in stem.lstrip("."):
        stem = stem[: stem.rindex(".")]
    names = allow.split(",")
    return any(m == stem or m in rel for m in names)


CFG = {
    "quick": dict(components=("pkg", "site-packages", "json", "x<y"), ncomp=2, stems=("mod", "pkg", "__init__"),
                  allow=("pkg", "mod", "json", "nomatch", "<cwd>"), nallow=2),
    "thorough": dict(components=COMPONENTS, ncomp=2, stems=STEMS, allow=ALLOW + ("<cwd>", "colorsys"), nallow=3),
}


def deffilter_body(t, cfg="quick"):
    c = CFG[cfg]
    libs, others = _roots()
    kind = t.take(4)  # 0 synthetic, 1 under a library root, 2 elsewhere, 3 a user file that is a link into the standard library
    if kind == 0:
        filename = SYNTHETIC[t.take(len(SYNTHETIC))]
    elif kind == 3:
        filename = _file_link()
    else:
        base = libs[t.take(len(libs))] if kind == 1 else others[t.take(len(others))]
        ncomp = t.take(c["ncomp"] + 1)
        comps = [c["components"][t.take(len(c["components"]))] for _ in range(ncomp)]
        stem = c["stems"][t.take(len(c["stems"]))]
        filename = "/".join([base] + comps + [stem + ".py"])
    n_allow = t.take(c["nallow"] + 2)  # 0: variable unset, 1: set but empty, n+1: n names
    if n_allow == 0:
        allow = None
    else:
        # "<cwd>" stands for the name of the current working directory (a name that matches no path component of the
        # file, but does match a component of the directory relative names would be resolved against)
        allow = ",".join(c["allow"][t.take(len(c["allow"]))] for _ in range(n_allow - 1)).replace("<cwd>", os.path.basename(os.getcwd()) or "root")
    code = CodeView(F.mod_func.__code__)
    code.co_filename = filename
    saved = os.environ.get("MONKEYTYPE_TRACE_MODULES")
    try:
        if allow is None:
            os.environ.pop("MONKEYTYPE_TRACE_MODULES", None)
        else:
            os.environ["MONKEYTYPE_TRACE_MODULES"] = allow
        got = getattr(MC.default_code_filter, "__wrapped__", MC.default_code_filter)(code)  # (memoisation bypassed when there is one)
    finally:
        if saved is None:
            os.environ.pop("MONKEYTYPE_TRACE_MODULES", None)
        else:
            os.environ["MONKEYTYPE_TRACE_MODULES"] = saved
    want = reference_filter(filename, allow)
    return check(bool(got) == want, lambda: f"default_code_filter({filename!r}) with MONKEYTYPE_TRACE_MODULES={allow!r} -> {got}, the property says {want}")


tape_harness("deffilter_quick", [("t", 10)], {}, lambda t: deffilter_body(t, "quick"), globals())
tape_harness("deffilter_thorough", [("t", 12)], {}, lambda t: deffilter_body(t, "thorough"), globals())


def twinfiles_body(t):
    """The SAME source text loaded from two files (a module vendored into a project, a copy of a library module kept next to
    the program): the two code objects compare equal -- code objects compare by value and ignore co_filename -- but the
    filter's verdict is about the FILE.  The shipped default filter is called as shipped (with whatever memoisation it has),
    on both code objects in either order."""
    libs, others = _roots()
    roots = [libs[t.take(len(libs))], others[t.take(len(others))]]
    stem = ("mod", "colorsys", "__init__")[t.take(3)]
    names = ["/".join([r, stem + ".py"]) for r in roots]
    order = (0, 1) if t.take(2) == 0 else (1, 0)
    third = t.take(2) == 1  # ask again for the first file at the end
    n_allow = t.take(3)
    allow = None if n_allow == 0 else ("nomatch" if n_allow == 1 else stem)
    base = F.mod_func.__code__
    codes = [base.replace(co_filename=n) for n in names]
    if not (codes[0] == codes[1] and codes[0] is not codes[1]):
        return ("INCONCLUSIVE", "code objects of identical source from two files no longer compare equal on this interpreter")
    saved = os.environ.get("MONKEYTYPE_TRACE_MODULES")
    got = []
    try:
        if allow is None:
            os.environ.pop("MONKEYTYPE_TRACE_MODULES", None)
        else:
            os.environ["MONKEYTYPE_TRACE_MODULES"] = allow
        # a fresh copy of the shipped filter: memo tables filled by other paths of this process are not part of the case
        flt = _fresh_default_filter()
        seq = [order[0], order[1]] + ([order[0]] if third else [])
        for i in seq:
            got.append((i, bool(flt(codes[i]))))
    finally:
        if saved is None:
            os.environ.pop("MONKEYTYPE_TRACE_MODULES", None)
        else:
            os.environ["MONKEYTYPE_TRACE_MODULES"] = saved
    for pos, (i, g) in enumerate(got):
        want = reference_filter(names[i], allow)
        if g != want:
            return check(False, lambda: f"default_code_filter on identical code from {names[i]!r} (call #{pos + 1} of {[names[j] for j, _ in got]}, "
                                        f"MONKEYTYPE_TRACE_MODULES={allow!r}) -> {g}, the property says {want}")
    return check(True)


def _fresh_default_filter():
    """monkeytype.config re-executed into a scratch module object: the shipped default_code_filter with EMPTY memo tables."""
    import importlib.util

    spec = importlib.util.spec_from_file_location("monkeytype._verif_config_copy", MC.__file__)
    mod = importlib.util.module_from_spec(spec)
    spec.loader.exec_module(mod)
    return mod.default_code_filter


tape_harness("twinfiles", [("t", 7)], {}, twinfiles_body, globals())


def twinfiles_shards():
    from engine.verdicts import enumerate_prefixes

    pres = enumerate_prefixes(twinfiles_body, 3)
    return [{f"t{j}": v for j, v in enumerate(p)} for p in pres]


def deffilter_shards(name):
    from engine.verdicts import enumerate_prefixes

    cfg = name.split("_")[1]
    pres = enumerate_prefixes(lambda t: deffilter_body(t, cfg), 4)
    return [{f"t{j}": v for j, v in enumerate(p)} for p in pres]


def describe(name, args):
    if not name.startswith("deffilter"):
        return dict(args)
    from engine.verdicts import Tape

    cfg = name.split("_")[1]
    seen = {}

    class Spy(Tape):
        pass

    tape = [args[f"t{i}"] for i in range(len([k for k in args if k.startswith("t")]))]
    import monkeytype.config as MC2

    real = getattr(MC2.default_code_filter, "__wrapped__", MC2.default_code_filter)
    out = {}

    def spy(code):
        out["co_filename"] = code.co_filename
        out["MONKEYTYPE_TRACE_MODULES"] = os.environ.get("MONKEYTYPE_TRACE_MODULES")
        r = real(code)
        out["admitted"] = bool(r)
        return r

    class W:
        __wrapped__ = staticmethod(spy)

    saved = MC.default_code_filter
    MC.default_code_filter = W
    try:
        deffilter_body(Tape(tape), cfg)
    finally:
        MC.default_code_filter = saved
    return out
