"""C02 (and the tracer part of C17/C18): one inductive step of the real CallTracer from an
arbitrary valid tracer state, plus function attribution on frames recorded from the live
interpreter.

Symbolic: the last-executed opcode (unconstrained int), generator/coroutine flags, the event,
the target frame, which fixture function each frame runs, which named parameters are bound,
entry/yield/return values (tape-decoded), the filter verdict, k.
"""
from __future__ import annotations

import asyncio
import os
from typing import Union

from harness.common import ASSUME, FAIL, PASS, check, tape_harness  # noqa: F401
from harness import oracles as O
from engine import verdicts as _V
from harness.frames import (AT_OP, AT_RAISE, AT_RETURN, AT_YIELD, CO_COROUTINE, CO_GENERATOR, REPR_MSG, RETURN_OPS, YIELD_OP, CodeView, FakeFrame, ListLogger, classify_exit,
                            record_workload, representation_ok, residue, seed_function, validate_contract)
from harness.values import Grammar, build_value, show
from vfix import funcs as F
from vfix import twin_a, twin_b  # noqa: E402

from monkeytype.tracing import CallTrace, CallTracer, get_func
from monkeytype.typing import get_type

FUNCTIONS = [
    "monkeytype.tracing.CallTracer.__call__",
    "monkeytype.tracing.CallTracer.handle_call",
    "monkeytype.tracing.CallTracer.handle_return",
    "monkeytype.tracing.CallTracer._get_func",
    "monkeytype.tracing.CallTrace.add_yield_type",
    "monkeytype.tracing.get_func / get_func_in_mro / _has_code / get_locals_from_previous_frames",
    "monkeytype.typing.get_type",
]

G_VAL = Grammar(top_atoms=("int", "str", "None", "A"), elem_atoms=("int", "str"), containers=("list", "dict_str"), max_size=1, depth=1,
                str_keys=("a",))
G_ATOM = Grammar(top_atoms=("int", "str", "None"), elem_atoms=("int",), containers=(), max_size=0, depth=0)

# functions a frame may be running: (function, resolvable?)
STEP_FUNCS = (
    F.mod_func,  # (a, b)
    F.gen_func,  # (n)
    F.Klass.method,  # (self, a)
    F.coro_func,  # (x)
    F.kw_only,  # (a, *, k, j=2)
    F.var_args,  # (a, *args, **kwargs): only `a` is a named parameter
)
EVENTS = ("call", "return", "c_call", "c_return", "c_exception")


def _named_params(func):
    code = func.__code__
    return code.co_varnames[: code.co_argcount + code.co_kwonlyargcount]


def _union_of(values, k):
    tys = [get_type(v, k) for v in values]
    if not tys:
        return None
    return Union[tuple(tys)]


class _Model:
    """Reference description of one in-flight call."""

    def __init__(self, func, entry, yields):
        self.func, self.entry, self.yields = func, entry, yields


def _same_trace(trace, func, entry, ret_present, ret_value, yields, k):
    if trace.func is not func:
        return f"attributed to {trace.func!r}, expected {func!r}"
    if set(trace.arg_types) != set(entry):
        return f"argument names {sorted(trace.arg_types)} != bound named parameters {sorted(entry)}"
    for n, v in entry.items():
        if not O.struct_eq(trace.arg_types[n], get_type(v, k)):
            return f"argument {n}: {O.show_type(trace.arg_types[n])} != type of entry value {show(v)}"
    if ret_present:
        if trace.return_type is None or not O.struct_eq(trace.return_type, get_type(ret_value, k)):
            return f"return type {O.show_type(trace.return_type)} != type of returned value {show(ret_value)}"
    elif trace.return_type is not None:
        return f"return type {O.show_type(trace.return_type)} recorded although the call did not return normally"
    want = _union_of(yields, k)
    if want is None:
        if trace.yield_type is not None:
            return f"yield type {O.show_type(trace.yield_type)} recorded although nothing was yielded"
    elif trace.yield_type is None or not O.struct_eq(trace.yield_type, want, unordered_unions=True):
        return f"yield type {O.show_type(trace.yield_type)} != union of yielded values {[show(y) for y in yields]}"
    return None


FIXED_ENTRY = (1, "s", None, 2.5, True, (1,), [1], 3)


def step_body(t, op, is_coro, k, depth_inflight=2, max_yields=2, rich=False):
    """One transition of the real tracer from an arbitrary valid state.

    The pre-state is BUILT BY EVENTS (for each in-flight frame: its call event and 0..n yield/resume pairs), which reaches
    exactly the states the invariant describes (one in-flight entry per started frame: function, entry types, union of the
    yields so far) without touching the tracer's representation; the verdict is read from the LOG only: right after the
    step, and after every frame that should be in flight has been finished ('drained').  Each prefix event is itself a
    step of this harness from a smaller state, so histories of any length follow by induction on the number of events."""
    if not representation_ok():
        return _V.INCONCLUSIVE(REPR_MSG)
    ASSUME(k >= 0)
    logger = ListLogger()
    admit = t.take(2) == 0  # verdict of the custom code filter for the TARGET code object (a verdict is a function of the code)
    verdict = {}

    def code_filter(code):
        return verdict.get(id(code), True)

    tracer = CallTracer(logger, k, code_filter, None)
    # ---- arbitrary valid pre-state: 0..depth_inflight in-flight frames
    n_inflight = t.take(depth_inflight + 1)
    pre_funcs = STEP_FUNCS if rich else (F.gen_func, F.Klass.method)
    frames, models = [], []
    for _ in range(n_inflight):
        func = pre_funcs[t.take(len(pre_funcs))]
        # entry values of frames already in flight do not influence the step: fixed, distinct per parameter
        entry = {name: FIXED_ENTRY[i] for i, name in enumerate(_named_params(func))}
        ny = t.take(max_yields + 1)
        yields = [build_value(t, G_ATOM) for _ in range(ny)]
        # every pre-state frame may be the step's target: its code view carries the symbolic opcode in slot AT_OP, and the
        # symbolic coroutine flag (in a coroutine the suspensions of the prefix are awaits: they leave no yield type)
        flags = (func.__code__.co_flags & ~CO_COROUTINE) | (CO_COROUTINE if is_coro else 0)
        fr = FakeFrame(CodeView(func.__code__, op, flags), dict(entry))
        seed_function(tracer, fr.f_code, func)
        fr.f_lasti = AT_RAISE
        tracer(fr, "call", None)
        for y in yields:
            fr.f_lasti = AT_YIELD
            tracer(fr, "return", y)
            tracer(fr, "call", None)
        frames.append(fr)
        models.append(_Model(func, entry, [] if is_coro else yields))
    if logger.traces:
        return check(False, lambda: f"{len(logger.traces)} trace(s) logged while {n_inflight} call(s) were only started / suspended")
    # ---- the step (only the dimensions the event can depend on are decoded)
    event = EVENTS[t.take(len(EVENTS))]
    target = t.take(n_inflight + 1)
    is_new = target == n_inflight
    if not is_new:
        ASSUME(admit)  # a frame in flight was admitted when it started, and the filter's verdict for a code object does not change
    relevant = admit and event in ("call", "return")
    arg = None
    if relevant and event == "return" and (rich or not is_new):
        arg = build_value(t, G_VAL)
    if is_new:
        func, resolvable = STEP_FUNCS[0], True
        if relevant:
            func = STEP_FUNCS[t.take(len(STEP_FUNCS))]
        names = _named_params(func)
        unbound = len(names)
        if relevant and event == "call":
            resolvable = t.take(2) == 0
            unbound = t.take(len(names) + 1)  # which named parameter is missing from f_locals (last = none)
        entry = {}
        for i, name in enumerate(names):
            if i == unbound:
                continue
            entry[name] = build_value(t, G_VAL) if (i == 0 or rich) and relevant and event == "call" and resolvable else FIXED_ENTRY[i]
        locs = dict(entry)
        locs["zz_local"] = 0  # a local that is not a parameter must never be recorded
        fr = FakeFrame(CodeView(func.__code__, op), locs)
        seed_function(tracer, fr.f_code, func if resolvable else None, like=func)
        verdict[id(fr.f_code)] = admit
    else:
        fr = frames[target]
        func, resolvable, entry = models[target].func, True, models[target].entry
    fr.f_lasti = AT_OP  # the last executed instruction is the one with the symbolic opcode

    ret = tracer(fr, event, arg)

    if ret is not tracer:
        return check(False, "__call__ did not return the tracer")
    # ---- reference transition
    still = list(range(n_inflight))  # indices of the pre-state frames that are still in flight after the step
    started_new = False
    exp_log = None
    changed = None
    if admit and event == "call":
        started_new = is_new and resolvable
    elif admit and event == "return" and not is_new:
        kind = classify_exit(op, is_coro)
        m = models[target]
        if kind == "yield":
            changed = (target, m.yields + [arg])
        elif kind == "await":
            pass
        elif kind == "return":
            still.remove(target)
            exp_log = (m.func, m.entry, True, arg, m.yields)
        else:
            still.remove(target)
            exp_log = (m.func, m.entry, False, None, m.yields)
    where = lambda: f"{event}@op{int(op)} (coro={bool(is_coro)}, admit={admit}, target={'new' if is_new else target})"  # noqa: E731
    # ---- 1. the log right after the step
    if exp_log is None:
        if logger.traces:
            return check(False, lambda: f"{len(logger.traces)} trace(s) logged on {where()} but none expected")
    else:
        if len(logger.traces) != 1:
            return check(False, lambda: f"{len(logger.traces)} traces logged on final {where()}, expected exactly one")
        r = _same_trace(logger.traces[0], *exp_log, k)
        if r:
            return check(False, lambda: f"logged trace on return@op{int(op)} (coro={bool(is_coro)}) value {show(arg)}: {r}")
        if residue(tracer, fr):
            return check(False, lambda: f"per-call state left in tracer.{residue(tracer, fr)[0]} after the call finished")
    # ---- 2. drain: finish every frame; exactly the frames that should still be in flight are logged, each once, faithfully
    todo = [(frames[i], models[i].func, models[i].entry, (changed[1] if changed and changed[0] == i else models[i].yields), True) for i in range(n_inflight)
            if i in still]
    todo += [(frames[i], None, None, None, False) for i in range(n_inflight) if i not in still]
    if is_new:
        todo.append((fr, func, entry, [], started_new))
    for dfr, dfunc, dentry, dyields, alive in todo:
        before = len(logger.traces)
        dfr.f_lasti = AT_RETURN
        tracer(dfr, "return", None)
        new = logger.traces[before:]
        if not alive:
            if new:
                return check(False, lambda: f"after {where()}: a frame that is not in flight (finished, rejected or never started) was logged when it returned")
            continue
        if len(new) != 1:
            return check(False, lambda: f"after {where()}: finishing an in-flight call of {dfunc.__qualname__} logged {len(new)} traces (its state was lost or duplicated)")
        r = _same_trace(new[0], dfunc, dentry, True, None, dyields, k)
        if r:
            return check(False, lambda: f"after {where()}: trace of the in-flight call of {dfunc.__qualname__}: {r}")
    for dfr, *_rest in todo:
        left = residue(tracer, dfr)
        if left:
            return check(False, lambda: f"per-call state left in tracer.{left[0]} after every call finished")
    return check(True)


def _mk_step(name, tape_n, **kw):
    def body(t, op, is_coro, k):
        return step_body(t, op, is_coro, k, **kw)

    body.__doc__ = "one tracer transition from an arbitrary valid state"
    tape_harness(name, [("t", tape_n)], {"op": "int", "is_coro": "bool", "k": "int"}, body, globals())


_mk_step("step_quick", 24, depth_inflight=1, max_yields=1)
_mk_step("step_thorough", 40, depth_inflight=2, max_yields=2, rich=True)


def step_shards(name):
    from engine.verdicts import enumerate_prefixes

    kw = dict(depth_inflight=1, max_yields=1) if name == "step_quick" else dict(depth_inflight=2, max_yields=2, rich=True)

    def build(t):
        step_body(t, 0, False, 0, **kw)

    pres = enumerate_prefixes(build, 6 if name == "step_quick" else 7)
    return [{f"t{j}": v for j, v in enumerate(p)} for p in pres]


def describe(name, args):
    out = {k: args[k] for k in ("op", "is_coro", "k") if k in args}
    import opcode

    if "op" in args and isinstance(args["op"], int) and 0 <= args["op"] < 256:
        out["opname"] = opcode.opname[args["op"]]
    out["tape"] = [args[k] for k in sorted((k for k in args if k[0] == "t" and k[1:].isdigit()), key=lambda s: int(s[1:]))][:12]
    if "sel" in args:
        out["sel"] = args["sel"]
        evs = recorded_call_events()
        if 0 <= args["sel"] < len(evs):
            out["frame_of"] = evs[args["sel"]].code.co_qualname
    return out


# ---------------------------------------------------------------- live workload + attribution
JOURNAL = {}


def workload():
    """Exercises every function kind; journals what really happened (ground truth)."""
    J = JOURNAL
    J.clear()
    k = F.Klass(3)
    F.mod_func(1, "x"); J["mod_func"] = [("return", 1)]
    F.no_args(); J["no_args"] = [("return", 1)]
    F.const_return(0); J["const_return"] = [("return", 7)]
    F.implicit_none(0); J["implicit_none"] = [("return", None)]
    try:
        F.raises(1)
    except ValueError:
        pass
    J["raises"] = [("exception",)]
    F.defaults(1); J["defaults"] = [("return", 1)]
    F.pos_only(1, 2, 3); J["pos_only"] = [("return", 3)]
    F.kw_only(1, k=2); J["kw_only"] = [("return", 2)]
    F.var_args(1, 2, z=3); J["var_args"] = [("return", 1)]
    F.all_kinds(1, 2, 3, 4, s=5, u=6); J["all_kinds"] = [("return", 2)]
    list(F.gen_func(2)); J["gen_func"] = [("yield", 0), ("yield", 1), ("return", None)]
    g = F.gen_returning(4)
    try:
        next(g); next(g)
    except StopIteration:
        pass
    J["gen_returning"] = [("yield", 4), ("return", "done")]
    list(F.gen_rebinding(0)); J["gen_rebinding"] = [("yield", 1), ("yield", 2), ("return", None)]

    async def driver():
        await asyncio.sleep(0)
        return await F.coro_func(9)

    asyncio.run(driver()); J["coro_func"] = [("return", 9)]
    F.recursive(1); J["recursive"] = [("return", 0), ("return", 0)]
    F.wrapped_func(1); J["wrapped_func"] = [("return", 1)]; J["wrapper"] = [("return", 1)]
    F.outer_closure(5); J["inner"] = [("return", (5, 5))]; J["outer_closure"] = [("return", (5, 5))]
    k.inherited(1); J["inherited"] = [("return", 1)]
    k.method(1); J["method"] = [("return", 1)]
    F.Klass.cmethod(1); J["cmethod"] = [("return", 1)]
    F.Klass.smethod(1); J["smethod"] = [("return", 1)]
    k.prop; J["prop"] = [("return", 3)]
    k.overridden(2); J["overridden"] = [("return", 2), ("return", 2)]
    list(k.gen_method(1)); J["gen_method"] = [("yield", 1), ("return", None)]
    asyncio.run(k.acoro(1)); J["acoro"] = [("return", 1)]
    F.Klass.Nested().nested_method(1); J["nested_method"] = [("return", 1)]
    F.Klass.Nested.Deeper().deep_method(1); J["deep_method"] = [("return", 1)]
    # interleaved generators
    g1, g2 = F.gen_func(1), F.gen_func(1)
    next(g1); next(g2); list(g2); list(g1)
    J["gen_func"] += [("yield", 0), ("return", None), ("yield", 0), ("return", None)]  # grouped per frame
    # delegation, exception exits, escaping recursive closure, dict arguments, *args + keyword-only
    list(F.gen_delegating(2)); J["gen_delegating"] = [("yield", 2), ("yield", "w"), ("yield", "w"), ("return", 2.5)]
    J["gen_words"] = [("yield", "w"), ("yield", "w"), ("return", None)]
    F.caught_inside(1); J["caught_inside"] = [("return", "caught")]; J["raises"] += [("exception",)]
    gr = F.gen_raising(3)
    try:
        list(gr)
    except KeyError:
        pass
    J["gen_raising"] = [("yield", 3), ("exception",)]
    F.make_recursive()(1); J["rec"] = [("return", 0), ("return", 0)]; J["make_recursive"] = [("return",)]
    F.takes_dict({"a": 1, "b": "s"}, 2, flag=True, z=1); J["takes_dict"] = [("return", [{"a": 1, "b": "s"}])]
    F.star_then_kwonly(1, "x", "y", sep=None); J["star_then_kwonly"] = [("return", None)]
    asyncio.run(F.coro_awaiting(4)); J["coro_awaiting"] = [("return", [4])]
    # container then element type (and back), three-level super() chains reached through the leaf first, '/' with *args/**kwargs
    list(F.gen_mixed(0)); J["gen_mixed"] = [("yield", [1, 2]), ("yield", 3), ("yield", (1, "x")), ("yield", "y"), ("yield", F.A), ("yield",), ("return", None)]
    F.L3().chained(1); J["chained"] = [("return", 1), ("return", 1), ("return", 1)]
    F.L3.cchained(1); J["cchained"] = [("return", 1), ("return", 1), ("return", 1)]
    F.posonly_star(1, 2, 3, z=4); J["posonly_star"] = [("return", 1)]
    asyncio.run(F.coro_rebinding(5)); J["coro_rebinding"] = [("return", "5")]
    # two modules with byte-identical source: equal code objects, different functions
    twin_a.twin_same(1); twin_b.twin_same("s"); J["twin_same"] = [("return", 1), ("return", "s")]
    twin_b.Twin().method(2.5); twin_a.Twin().method(None); J["method"] += [("return", [2.5]), ("return", [None])]


_RECORDED = None


def recorded_events():
    global _RECORDED
    if _RECORDED is None:
        _RECORDED = record_workload(workload, os.path.dirname(F.__file__))
    return _RECORDED


def recorded_call_events():
    return [e for e in recorded_events() if e.event == "call" and e.code.co_name not in ("driver", "__init__")]


def validate_environment():
    """Native (engine-free) validation of the environment contract against CPython itself."""
    evs = recorded_events()
    problems = validate_contract(evs, JOURNAL)
    return {"environment_contract_events_validated": len(evs), "environment_contract_problems": problems,
            "inconclusive": ("environment contract disagrees with the live interpreter: " + "; ".join(problems[:3])) if problems else None}


# ---------------------------------------------------------------- recorded real run through the real tracer
def _distinct_codes(evs):
    seen, out = set(), []
    for e in evs:
        if id(e.code) not in seen:
            seen.add(id(e.code))
            out.append(e.code)
    return out


def _expected_log(evs, admit, k):
    """Reference: one entry per finished call of an admitted code object, in completion order."""
    state, out = {}, []
    for e in evs:
        if not admit(e.code):
            continue
        if e.event == "call":
            if e.frame_id not in state:
                names = e.code.co_varnames[: e.code.co_argcount + e.code.co_kwonlyargcount]
                state[e.frame_id] = ({n: e.locals[n] for n in names if n in e.locals}, [])
            continue
        entry, yields = state[e.frame_id]
        kind = classify_exit(e.op, bool(e.code.co_flags & CO_COROUTINE))
        if kind == "yield":
            yields.append(e.arg)
        elif kind == "await":
            pass
        else:
            out.append((e.code, entry, kind == "return", e.arg, list(yields)))
            del state[e.frame_id]
    return out, state


def realrun_body(t, k):
    """The whole fixture workload, as recorded from the running interpreter (real code objects, real
    f_lasti, real values), is fed event by event to the real CallTracer; the log must be exactly the
    finished calls, each once, in completion order, with faithful types."""
    ASSUME(k >= 0)
    evs = recorded_events()
    codes = _distinct_codes(evs)
    sel = t.take(len(codes) + 1)  # the code filter admits one code object, or (last alternative) everything

    def admit(code):
        return sel == len(codes) or code is codes[sel]

    logger = ListLogger()
    tracer = CallTracer(logger, k, admit, None)
    proxies = {}
    for e in evs:
        fr = proxies.get(e.frame_id)
        if fr is None:
            back = None
            for locs in reversed(e.back_locals):
                back = FakeFrame(None, locs, {}, back)
            fr = proxies[e.frame_id] = FakeFrame(e.code, {}, e.globals, back)
        fr.f_locals, fr.f_lasti = e.locals, e.lasti
        if tracer(fr, e.event, e.arg) is not tracer:
            return check(False, "__call__ did not return the tracer")
    expected, unfinished = _expected_log(evs, admit, k)
    got = list(logger.traces)
    gi = 0
    for code, entry, ret_present, ret_value, yields in expected:
        optional = code.co_name in UNRESOLVABLE_OK
        tr = got[gi] if gi < len(got) else None
        if tr is None or getattr(tr.func, "__code__", None) is not code:
            if optional:
                continue
            return check(False, lambda: f"finished call of {code.co_qualname} from {os.path.basename(code.co_filename)} (completion #{gi}) is not in the log at its "
                                        f"place; logged there: {(tr.func.__module__ + '.' + tr.func.__qualname__) if tr is not None else 'nothing'}")
        truth = _truth_function(code)
        r = _same_trace(tr, truth if truth is not None else tr.func, entry, ret_present, ret_value, yields, k)
        if r:
            return check(False, lambda: f"trace of {code.co_qualname}: {r}")
        gi += 1
    if gi != len(got):
        return check(False, lambda: f"{len(got) - gi} extra trace(s) logged, first: {got[gi].func.__qualname__}")
    left = [n for fid, fr in proxies.items() if fid not in unfinished for n in residue(tracer, fr)]
    return check(not left, lambda: f"per-call state left in tracer.{left[0]} after every call finished")


tape_harness("realrun", [("t", 1)], {"k": "int"}, realrun_body, globals())


def _nested_frames(evs):
    """Frame ids of recorded calls of NESTED functions (found through the locals of a calling frame) that finished."""
    out = []
    for e in evs:
        if e.event == "call" and "<locals>" in e.code.co_qualname and e.code.co_name not in UNRESOLVABLE_OK and e.code.co_name != "driver" and e.frame_id not in out:
            out.append(e.frame_id)
    return out


def sessions_body(t):
    """Two tracing sessions in one process.  In the first, a nested function is entered where no calling frame holds it (the
    call shape `make()(x)`): it cannot be resolved and nothing is logged.  In the second session - a NEW CallTracer - the same
    code runs as recorded from the live interpreter, reachable through its caller's locals: that call must be logged.  What one
    session could not resolve is not the next session's business."""
    evs = recorded_events()
    fids = _nested_frames(evs)
    fid = fids[t.take(len(fids))]
    mine = [e for e in evs if e.frame_id == fid]
    code = mine[0].code
    names = code.co_varnames[: code.co_argcount + code.co_kwonlyargcount]
    first = CallTracer(ListLogger(), 0, None, None)
    fr0 = FakeFrame(code, {n: mine[0].locals[n] for n in names if n in mine[0].locals}, {}, None)
    fr0.f_lasti = mine[0].lasti
    first(fr0, "call", None)
    fr0.f_lasti = mine[-1].lasti
    first(fr0, mine[-1].event, mine[-1].arg)
    logger = ListLogger()
    second = CallTracer(logger, 0, None, None)
    fr = None
    for e in mine:
        if fr is None:
            back = None
            for locs in reversed(e.back_locals):
                back = FakeFrame(None, locs, {}, back)
            fr = FakeFrame(e.code, {}, e.globals, back)
        fr.f_locals, fr.f_lasti = e.locals, e.lasti
        second(fr, e.event, e.arg)
    expected, _unfinished = _expected_log(mine, lambda c: True, 0)
    got = [tr for tr in logger.traces]
    if len(got) != len(expected) or any(getattr(tr.func, "__code__", None) is not code for tr in got):
        return check(False, lambda: f"second tracing session: the call of {code.co_qualname} logged {len(got)} trace(s), expected {len(expected)} "
                                    f"(an earlier session of the same process had met this code where it could not be resolved)")
    return check(True)


tape_harness("sessions", [("t", 1)], {}, sessions_body, globals())


def _truth_function(code):
    """Ground truth: the fixture function object whose __code__ is `code` (independent lookup)."""
    import inspect

    found = []

    def visit(obj, depth=0):
        for name, v in list(vars(obj).items()):
            raw = v
            if isinstance(raw, (classmethod, staticmethod)):
                raw = raw.__func__
            if isinstance(raw, property):
                for acc in (raw.fget, raw.fset):
                    if acc is not None and getattr(acc, "__code__", None) is code:
                        found.append(acc)
                continue
            f = raw
            while f is not None:
                if getattr(f, "__code__", None) is code:
                    found.append(f)
                    break
                f = getattr(f, "__wrapped__", None)
            if inspect.isclass(v) and v.__module__ == F.__name__ and depth < 3:
                visit(v, depth + 1)

    visit(F)
    return found[0] if found else None


UNRESOLVABLE_OK = ("wrapper",)


def attribution_body(sel):
    """get_func on a frame recorded from the live interpreter returns the function whose code ran."""
    evs = recorded_call_events()
    n = len(evs)
    ASSUME(0 <= sel)
    ASSUME(sel < n)
    idx = 0
    for i in range(n):
        if sel == i:
            idx = i
            break
    e = evs[idx]
    back = None
    for locs in reversed(e.back_locals):
        back = FakeFrame(None, locs, {}, back)
    fr = FakeFrame(e.code, e.locals, e.globals, back)
    func = get_func(fr)
    truth = _truth_function(e.code)
    if e.code.co_name in UNRESOLVABLE_OK:
        # e.g. the wrapper function object created by a decorator is reachable from no namespace
        # under its own name: MonkeyType may decline it, but must not attribute it to something else
        return check(func is None or getattr(func, "__code__", None) is e.code,
                     lambda: f"{e.code.co_qualname}: get_func returned {func!r}")
    if truth is None:
        # nested functions (closures, wrappers) are not reachable from module attributes: the
        # requirement is then just "the function whose code ran"
        return check(func is not None and getattr(func, "__code__", None) is e.code,
                     lambda: f"{e.code.co_qualname}: get_func returned {func!r}")
    return check(func is not None and func.__code__ is e.code,
                 lambda: f"{e.code.co_qualname}: get_func returned {func!r}, the code that ran belongs to {truth!r}")


tape_harness("attribution", [], {"sel": "int"}, lambda sel: attribution_body(sel), globals())


def attribution_shards():
    return [{}]
