"""Tripwire objects for C03's hook-freedom clause: every piece of user-defined code that the
tracer could run on a program's object appends to a journal.

Also the *environment contract* for `isinstance`: CrossHair replaces builtins.isinstance by
`issubclass(type(obj), cls)`, which never consults `obj.__class__`; CPython does (Objects/abstract.c
object_isinstance: when type(obj) is not a subclass, it looks `obj.__class__` up with a full
attribute access, running __getattribute__ / property hooks).  `cpython_isinstance` below spells
that algorithm out in Python, so the hook invocations survive symbolic execution; it is compared
with the real builtin on every tripwire kind x every class argument MonkeyType uses, natively, on
every run (validate_isinstance_model).
"""
from __future__ import annotations

import os
import sys
import types
from collections import defaultdict

JOURNAL: list = []


def _engine_probe(what):
    """Attribute reads the symbolic engine itself performs on every object it meets (its internal
    isinstance(x, CrossHairValue) checks read x.__class__; it looks for __ch_* protocol attributes)."""
    name = what[1] if len(what) > 1 else ""
    return what[0] == "ClassProp.__class__" or name == "__class__" or str(name).startswith("__ch_")


def _j(*what):
    # Who triggered this hook?  Walk up the stack to the first frame that is either MonkeyType's code, the
    # isinstance contract model below (MonkeyType's isinstance calls run through it under the engine), or the
    # symbolic engine's own code; frames of the standard library (abc, inspect, ...) in between are
    # transparent.  A hook whose trigger is the engine AND that is one of the engine's own probes is not the
    # tracer's doing.  Natively there are no engine frames and everything counts.
    if _engine_probe(what):
        f = sys._getframe(1)
        while f is not None:
            fn = f.f_code.co_filename
            if fn == __file__:
                if f.f_code.co_name in _MODEL_FRAMES:
                    break
            elif _CROSSHAIR in fn:
                return
            elif _MONKEYTYPE in fn:
                break
            f = f.f_back
    JOURNAL.append(what)


_CROSSHAIR = os.sep + "crosshair" + os.sep
_MONKEYTYPE = os.sep + "monkeytype" + os.sep
_MODEL_FRAMES = ("_object_isinstance", "cpython_isinstance")


# ------------------------------------------------------------------ tripwire classes
class GetAttribute:
    """Overrides __getattribute__: every attribute read is user code."""

    def __getattribute__(self, name):
        _j("GetAttribute.__getattribute__", name)
        return object.__getattribute__(self, name)

    def __call__(self, *a):
        _j("GetAttribute.__call__")

    def meth(self, x):
        return x


class GetAttr:
    """__getattr__ fallback (lazy proxies, mocks): reading a *missing* attribute is user code."""

    def __getattr__(self, name):
        _j("GetAttr.__getattr__", name)
        raise AttributeError(name)

    def __call__(self, *a):
        _j("GetAttr.__call__")

    def meth(self, x):
        return x


class ClassProp:
    """__class__ overridden by a property (lazy proxies do this to impersonate their target)."""

    @property
    def __class__(self):
        _j("ClassProp.__class__")
        return ClassProp

    def __call__(self, *a):
        _j("ClassProp.__call__")

    def meth(self, x):
        return x


class _SideEffect:
    def __init__(self, name):
        self.name = name

    def __get__(self, obj, owner=None):
        _j("descriptor.__get__", self.name)
        return 1


class LazyDesc:
    """Side-effecting descriptors and a lazy property, one of them named like a traced function."""

    lazy = _SideEffect("lazy")
    gen_func = _SideEffect("gen_func")  # same name as the traced fixture function
    __wrapped__ = _SideEffect("__wrapped__")
    __code__ = _SideEffect("__code__")

    @property
    def prop(self):
        _j("LazyDesc.prop")
        return 1

    def __call__(self, *a):
        _j("LazyDesc.__call__")

    def meth(self, x):
        return x


class Journal:
    """Journaling hash / equality / truthiness / repr / len."""

    def __hash__(self):
        _j("Journal.__hash__")
        return 7

    def __eq__(self, other):
        _j("Journal.__eq__")
        return self is other

    def __bool__(self):
        _j("Journal.__bool__")
        return True

    def __repr__(self):
        _j("Journal.__repr__")
        return "Journal()"

    __str__ = __repr__

    def __len__(self):
        _j("Journal.__len__")
        return 1

    def __iter__(self):
        _j("Journal.__iter__")
        return iter(())

    def __call__(self, *a):
        _j("Journal.__call__")

    def meth(self, x):
        return x


def _proto(base, names):
    ns = {}
    for n in names:
        def hook(self, *a, _n=n, _base=base, **k):
            _j(f"J{_base.__name__}.{_n}")
            return getattr(_base, _n)(self, *a, **k)
        ns[n] = hook
    def meth(self, x):
        return x

    ns["meth"] = meth
    return type("J" + base.__name__, (base,), ns)


JList = _proto(list, ["__iter__", "__len__", "__contains__", "__getitem__"])
JTuple = _proto(tuple, ["__iter__", "__len__", "__contains__", "__getitem__"])
JSet = _proto(set, ["__iter__", "__len__", "__contains__"])
JDict = _proto(dict, ["__iter__", "__len__", "__contains__", "__getitem__", "keys", "values", "items", "get"])
JDefaultDict = _proto(defaultdict, ["__iter__", "__len__", "__contains__", "__getitem__", "keys", "values", "items", "get", "__missing__"])


class Meta(type):
    def __instancecheck__(cls, obj):
        _j("Meta.__instancecheck__")
        return type.__instancecheck__(cls, obj)

    def __subclasscheck__(cls, sub):
        _j("Meta.__subclasscheck__")
        return type.__subclasscheck__(cls, sub)

    def __getattr__(cls, name):
        _j("Meta.__getattr__", name)
        raise AttributeError(name)


class MetaInst(metaclass=Meta):
    def meth(self, x):
        return x


# name -> factory; the journal is cleared by the harness after construction
KINDS = (
    ("GetAttribute", GetAttribute),
    ("GetAttr", GetAttr),
    ("ClassProp", ClassProp),
    ("LazyDesc", LazyDesc),
    ("Journal", Journal),
    ("JList", lambda: JList([1])),
    ("JTuple", lambda: JTuple((1, "s"))),
    ("JSet", lambda: JSet({1})),
    ("JDict", lambda: JDict(a=1)),
    ("JDefaultDict", lambda: JDefaultDict(int, a=1)),
    ("MetaInst", MetaInst),
    ("MetaInst-class", lambda: MetaInst),
    ("mappingproxy(JDict)", lambda: types.MappingProxyType(JDict(a=1))),  # a read-only view DELEGATES keys()/values()/len/iter
)
HASHABLE = {"GetAttribute", "GetAttr", "ClassProp", "LazyDesc", "Journal", "JTuple", "MetaInst", "MetaInst-class"}
CALLABLE = {"GetAttribute", "GetAttr", "ClassProp", "LazyDesc", "Journal", "MetaInst-class"}
HAS_METH = {"GetAttribute", "GetAttr", "ClassProp", "LazyDesc", "Journal", "JList", "JTuple", "JSet", "JDict", "JDefaultDict", "MetaInst"}


# ------------------------------------------------------------------ isinstance contract
_MISSING = object()


def _object_isinstance(inst, cls):
    # Objects/abstract.c: object_isinstance() for a class that is a real type
    t = type(inst)
    if cls in t.__mro__:  # PyType_IsSubtype(Py_TYPE(inst), cls): no user code
        return True
    try:
        icls = inst.__class__  # _PyObject_LookupAttr(inst, &_Py_ID(__class__)): a full attribute access
    except AttributeError:
        return False
    if icls is not t and type.__instancecheck__(type, icls):  # PyType_Check(icls)
        return cls in icls.__mro__
    return False


def cpython_isinstance(inst, cls):
    """builtins.isinstance for `cls` a builtin type (whose metaclass is `type`) or a tuple of such."""
    if type(inst) is cls:
        return True
    if type(cls) is type:  # PyType_CheckExact(cls)
        return _object_isinstance(inst, cls)
    if type(cls) is tuple:
        for item in cls:
            if cpython_isinstance(inst, item):
                return True
        return False
    raise TypeError("cpython_isinstance models builtin class arguments only")


# the class arguments MonkeyType passes to isinstance on objects of the traced program
def _class_args():
    import functools

    return [type, str, types.GeneratorType, property, (classmethod, staticmethod), functools.cached_property,
            (types.FunctionType, types.LambdaType, types.MethodType, types.BuiltinMethodType, types.BuiltinFunctionType)]


def validate_isinstance_model():
    """Compare model and builtin (result or exception, and the journal) on every tripwire kind and on
    plain values.  Returns a list of disagreements."""
    import builtins

    problems = []
    plain = [1, "s", None, [1], (1,), {"a": 1}, len, (lambda: 0), int, (i for i in ())]
    for name, mk in KINDS + tuple((repr(v)[:20], (lambda v=v: v)) for v in plain):
        for cls in _class_args():
            obj = mk()
            outs = []
            for impl in (builtins.isinstance, cpython_isinstance):
                del JOURNAL[:]
                try:
                    r = impl(obj, cls)
                except Exception as e:  # noqa: BLE001
                    r = ("raised", type(e).__name__)
                outs.append((r, list(JOURNAL)))
            if outs[0] != outs[1]:
                problems.append(f"isinstance({name}, {cls}): real {outs[0]} model {outs[1]}")
    del JOURNAL[:]
    return problems
