"""C09 (claimed in part): the trace store returns exactly what was added.

E2 part: the SQL text of the real make_query / list_modules is compiled to SMT and compared with
the property's specification over a bounded symbolic relation (engine/smt.py).
E1 part: batch atomicity at the Python level -- SQLiteStore.add / serialize_traces /
CallTraceStoreLogger.flush against a connection that implements the documented sqlite3
context-manager contract and fails after j rows.
"""
from __future__ import annotations

import re
import sqlite3

from harness.common import ASSUME, FAIL, PASS, check, tape_harness  # noqa: F401
from vfix import funcs as F

from monkeytype.db.base import CallTraceStoreLogger
from monkeytype.db.sqlite import DEFAULT_TABLE, SQLiteStore, create_call_trace_table, make_query
from monkeytype.tracing import CallTrace

FUNCTIONS = [
    "monkeytype.db.sqlite.make_query (SQL text compiled to SMT)",
    "monkeytype.db.sqlite.SQLiteStore.list_modules (SQL text compiled to SMT)",
    "monkeytype.db.sqlite.SQLiteStore.add / filter (replay and atomicity harness)",
    "monkeytype.encoding.serialize_traces / CallTraceRow.from_trace",
    "monkeytype.db.base.CallTraceStoreLogger.flush",
]
JSON_COL = {0: '{"a": 0}', 1: '{"a": 1}', 2: None}


# ---------------------------------------------------------------- concrete reference + replay
def spec_filter(rows, m, p, n):
    """The property, in plain Python: distinct committed rows with module == m and qualname starting
    with p (case-sensitive, no wildcards); min(n, d) of them are returned."""
    seen = []
    for r in rows:
        if r[0] == m and (p is None or r[1].startswith(p)) and r not in seen:
            seen.append(r)
    return seen


def store_case(rows, m, p, n):
    """Replay harness: put `rows` ([module, qualname, a, r, y]) into a real SQLiteStore (in this
    insertion order; all on the same day) and compare filter(m, p, n) with the specification."""
    conn = sqlite3.connect(":memory:")
    create_call_trace_table(conn)
    store = SQLiteStore(conn)
    full = [(r[0], r[1], JSON_COL[r[2]], JSON_COL[r[3]], JSON_COL[r[4]]) for r in rows]
    days = [(r[5] if len(r) > 5 else 0) for r in rows]  # which of two days the row was written on
    with conn:
        conn.executemany(f"INSERT INTO {DEFAULT_TABLE} VALUES (?, ?, ?, ?, ?, ?)", [(f"2020-01-0{1 + d} 00:00:00",) + f for d, f in zip(days, full)])
    got = [(t.module, t.qualname, t.arg_types, t.return_type, t.yield_type) for t in store.filter(m, p, n)]
    want_all = spec_filter(full, m, p, n)
    d = len(want_all)
    problems = []
    if len(got) != min(n, d):
        problems.append(f"{len(got)} rows returned, expected min({n}, {d})")
    for g in got:
        if g not in want_all:
            problems.append(f"returned row {g[:2]} does not have module {m!r} and a qualname starting with {p!r}")
    if len(set(got)) != len(got):
        problems.append("duplicate rows returned")
    mods = store.list_modules()
    want_mods = sorted({r[0] for r in full})
    if sorted(mods) != want_mods:
        problems.append(f"list_modules() = {sorted(mods)}, modules with rows = {want_mods}")
    conn.close()
    return check(not problems, lambda: f"store with rows {[r[:2] for r in full]}: filter({m!r}, {p!r}, {n}): " + "; ".join(problems))


def describe(name, args):
    return dict(args)


# ---------------------------------------------------------------- obtaining the SQL from the real code
class RecordingConnection:
    def __init__(self):
        self.sql = []

    def __enter__(self):
        return self

    def __exit__(self, *a):
        return False

    def cursor(self):
        return self

    def execute(self, sql, values=()):
        self.sql.append((sql, list(values)))
        return self

    def executemany(self, sql, rows=()):
        self.sql.append((sql, [list(r) for r in rows]))
        return self

    def close(self):
        pass

    def fetchall(self):
        return []


class _FakeSqlite3:
    """Stands in for the sqlite3 module inside monkeytype.db.sqlite while the store is being set up."""

    def __init__(self, real):
        self._real = real
        self.connections = []

    def connect(self, *a, **k):
        rc = RecordingConnection()
        rc.connect_args = (a, k)
        self.connections.append(rc)
        return rc

    def __getattr__(self, name):
        return getattr(self._real, name)


def setup_and_write_sql():
    """Every SQL statement the real store executes when it is created (SQLiteStore.make_store) and when a batch is
    added (SQLiteStore.add), in order, as ('setup' | 'add', sql)."""
    import monkeytype.db.sqlite as DB
    from monkeytype.tracing import CallTrace
    from vfix import funcs as F

    fake = _FakeSqlite3(DB.sqlite3)
    saved = DB.sqlite3
    DB.sqlite3 = fake
    try:
        store = SQLiteStore.make_store("verif_c09_never_created.db")
    finally:
        DB.sqlite3 = saved
    if len(fake.connections) != 1:
        raise ValueError(f"make_store opened {len(fake.connections)} connections")
    rc = fake.connections[0]
    out = [("setup", sql) for sql, _v in rc.sql]
    n = len(rc.sql)
    store.add([CallTrace(F.mod_func, {"a": int}, int)])
    out += [("add", sql) for sql, _v in rc.sql[n:]]
    return out, rc


_COLUMNS = ("created_at", "module", "qualname", "arg_types", "return_type", "yield_type")


def audit_statements(stmts):
    """The modelled subset of set-up / write statements.  Anything else (PRAGMA, DROP, DELETE, ATTACH, a CREATE TABLE
    that is not IF NOT EXISTS, ...) changes atomicity, durability or what survives re-opening in ways the
    encoding does not model: the check must then answer 'inconclusive', never 'holds'."""
    import re

    problems = []
    for phase, sql in stmts:
        text = " ".join(line for line in (ln.split("--")[0].strip() for ln in sql.splitlines()) if line).rstrip(";").strip()
        up = text.upper()
        if phase == "setup":
            m = re.fullmatch(r"CREATE TABLE IF NOT EXISTS (\w+) \((.*)\)", text, flags=re.I | re.S)
            if m:
                cols = [c.strip().split()[0] for c in m.group(2).split(",")]
                if sorted(cols) != sorted(_COLUMNS):
                    problems.append(f"table columns {cols}")
                continue
            if re.fullmatch(r"CREATE INDEX IF NOT EXISTS \w+ ON \w+ \([\w, ]+\)", text, flags=re.I):
                continue
            problems.append(f"store set-up executes {text[:80]!r}")
        else:
            if not re.fullmatch(r"INSERT INTO \w+( \([\w, ]+\))? VALUES \((\?|:\w+)(, ?(\?|:\w+)){5}\)(, ?\((\?|:\w+)(, ?(\?|:\w+)){5}\))*", text, flags=re.I):
                problems.append(f"add() executes {text[:80]!r}")
            if up.startswith("INSERT OR"):
                problems.append("conflict clause on insert")
    return problems


def real_sql():
    """(sql, binding) for filter with prefix, filter without prefix, list_modules -- from the real code."""
    out = {}
    for key, prefix in (("filter_prefix", "@@P@@"), ("filter_all", None)):
        sql, values = make_query(DEFAULT_TABLE, "@@M@@", prefix, 424242)
        binding = {}
        # positional parameters (a sequence, bound to `?` in textual order) or named ones (a mapping, bound to `:name`)
        for i, v in (values.items() if isinstance(values, dict) else enumerate(values)):
            binding[i] = {"@@M@@": "M", "@@P@@": "P", 424242: "n"}.get(v)
            if binding[i] is None:
                raise ValueError(f"make_query passes an unexpected parameter {v!r}")
        out[key] = (sql, binding)
    rc = RecordingConnection()
    SQLiteStore(rc).list_modules()
    out["list_modules"] = (rc.sql[-1][0], {})
    # what the real filter() does with the query must be plain execution
    return out


# ---------------------------------------------------------------- E1: batch atomicity
class ModelConnection:
    """The documented sqlite3.Connection context-manager contract: `with conn:` commits on a clean
    exit and rolls back on an exception; executemany inserts row by row and raises after `fail_after`
    rows (None: never)."""

    def __init__(self, fail_after, exc):
        self.committed, self.pending = [], []
        self.fail_after, self.exc = fail_after, exc
        self.depth = 0
        self.transactions = 0
        self.rows_written = 0  # across all executemany calls: the interruption point is global

    def __enter__(self):
        self.depth += 1
        self.transactions += 1
        return self

    def __exit__(self, et, ev, tb):
        self.depth -= 1
        if et is None:
            self.committed.extend(self.pending)
        self.pending = []
        return False

    interrupted = False

    def executemany(self, sql, rows):
        for r in rows:
            if isinstance(r, dict):  # named parameters: one mapping per row
                r = [r[c] for c in _COLUMNS]
            if self.fail_after is not None and self.rows_written == self.fail_after:
                self.interrupted = True
                raise self.exc("write interrupted")
            self.rows_written += 1
            (self.pending if self.depth else self.committed).append(tuple(r)[1:])

    def execute(self, sql, values=()):
        values = list(values)
        if sql.lstrip().upper().startswith("INSERT") and len(values) > 6 and len(values) % 6 == 0:
            # a multi-row INSERT ... VALUES (?,?,?,?,?,?), (?,...), ...: one statement, several rows
            self.executemany(sql, [values[i:i + 6] for i in range(0, len(values), 6)])
        else:
            self.executemany(sql, [values])

    def __ch_deep_realize__(self, memo):
        return self


class Unserialisable:
    """A 'function' without a qualified name: CallTraceRow.from_trace fails on it (AttributeError)."""

    __module__ = "vfix.funcs"


class Interrupted(Exception):
    pass


EXC = (sqlite3.OperationalError, Interrupted, OSError, sqlite3.InterfaceError, sqlite3.ProgrammingError)


def atomic_body(t, via_logger):
    n = 1 + t.take(4)  # batch of 1..4 traces
    bad = [t.take(2) == 1 for _ in range(n)]
    fail_at = t.take(n + 2)  # 0..n: raise after that many rows; n+1: no fault
    exc = EXC[t.take(len(EXC))]
    funcs = (F.mod_func, F.no_args, F.defaults, F.kw_only)
    traces = []
    for i in range(n):
        f = Unserialisable() if bad[i] else funcs[i]
        traces.append(CallTrace(f, {"a": int}, int, None))
    good = [tr for tr, b in zip(traces, bad) if not b]
    conn = ModelConnection(None if fail_at == n + 1 else fail_at, exc)
    store = SQLiteStore(conn)
    raised = None
    try:
        if via_logger:
            lg = CallTraceStoreLogger(store)
            for tr in traces:
                lg.log(tr)
            lg.flush()
        else:
            store.add(traces)
    except Exception as e:  # noqa: BLE001
        raised = e
    want = [(tr.func.__module__, tr.func.__qualname__) for tr in good]
    got = [(r[0], r[1]) for r in conn.committed]
    if conn.interrupted:
        ok = got == [] and raised is not None
        return check(ok, lambda: f"batch of {n} (unserialisable: {bad}) interrupted after {fail_at} rows: {len(got)} rows committed "
                                 f"(must be none), exception seen: {raised!r}")
    if raised is not None:
        return check(False, lambda: f"batch of {n} (unserialisable: {bad}), no interruption: add raised {raised!r}")
    return check(sorted(set(got)) == sorted(set(want)) and conn.pending == [], lambda: f"batch of {n} (unserialisable: {bad}): committed {got}, serialisable traces were {want}")


tape_harness("atomic", [("t", 8)], {"via_logger": "bool"}, atomic_body, globals())


class NotAType:
    """An 'argument type' that cannot be encoded (no __qualname__): the trace fails to serialise although its function is fine."""

    __module__ = "vfix.funcs"


def atomic_rich_body(t, sizes=(2, 3)):
    """Batches whose traces share a function: identical traces, traces that differ ONLY in their yield / return / argument
    type, and an unserialisable trace (bad function, or good function with an unencodable argument type) before or after a
    serialisable trace of the same function.  Every DISTINCT serialisable trace must be committed, or none."""
    n = sizes[t.take(len(sizes))]
    traces, good = [], []
    for i in range(n):
        kind = t.take(3)  # 0 serialisable, 1 unserialisable function, 2 serialisable function with an unencodable argument type
        func = F.mod_func if t.take(2) == 0 else (F.no_args, F.defaults, F.kw_only)[i]
        variant = t.take(4)  # which column differs: none / yield type / return type / argument type
        args = {"a": str if variant == 3 else int}
        ret = str if variant == 2 else int
        yld = (None, int)[1 if variant == 1 else 0]
        if kind == 1:
            tr = CallTrace(Unserialisable(), args, ret, yld)
        elif kind == 2:
            tr = CallTrace(func, {"a": NotAType()}, ret, yld)
        else:
            tr = CallTrace(func, args, ret, yld)
            good.append(tr)
        traces.append(tr)
    fail_at = (None, 1)[t.take(2)]
    conn = ModelConnection(fail_at, sqlite3.OperationalError)
    raised = None
    try:
        SQLiteStore(conn).add(traces)
    except Exception as e:  # noqa: BLE001
        raised = e
    from monkeytype.encoding import CallTraceRow

    want = set()
    for tr in good:
        row = CallTraceRow.from_trace(tr)
        want.add((row.module, row.qualname, row.arg_types, row.return_type, row.yield_type))
    got = {tuple(r[:5]) for r in conn.committed}
    desc = [(getattr(tr.func, "__qualname__", "<unserialisable>"), {k: getattr(v, "__name__", "<unencodable>") for k, v in tr.arg_types.items()},
             getattr(tr.return_type, "__name__", None), getattr(tr.yield_type, "__name__", None)) for tr in traces]
    if conn.interrupted:
        return check(not conn.committed and raised is not None, lambda: f"batch {desc} interrupted after {fail_at} row(s): {len(conn.committed)} rows stayed committed")
    if raised is not None:
        return check(False, lambda: f"batch {desc}: add raised {raised!r}")
    return check(got == want, lambda: f"batch {desc}: committed rows {sorted(got, key=repr)} != the distinct serialisable traces {sorted(want, key=repr)}")


tape_harness("atomic_rich", [("t", 12)], {}, atomic_rich_body, globals())
tape_harness("atomic_rich_quick", [("t", 9)], {}, lambda t: atomic_rich_body(t, (2,)), globals())

BIG_SIZES = (600, 1100)
BIG_FAULTS = (0, 1, 499, 500, 501, 999, 1000, -1, None)  # -1: after all but the last row; None: no fault


def atomic_big_body(t, quick=False):
    """A large batch: the whole batch must still be ONE transaction (all rows or none)."""
    n = BIG_SIZES[0] if quick else BIG_SIZES[t.take(len(BIG_SIZES))]
    faults = (500, None) if quick else BIG_FAULTS
    fa = faults[t.take(len(faults))]
    one_bad = t.take(3)  # 0: all serialisable, 1: the first is not, 2: the last is not
    funcs = (F.mod_func, F.no_args, F.defaults, F.kw_only)
    traces = [CallTrace(funcs[i % 4], {"a": int, "n": (int, str, float, bool)[(i // 4) % 4]}, (int, str)[(i // 16) % 2], None) for i in range(n)]
    if one_bad == 1:
        traces[0] = CallTrace(Unserialisable(), {}, None, None)
    elif one_bad == 2:
        traces[-1] = CallTrace(Unserialisable(), {}, None, None)
    n_good = n - (1 if one_bad else 0)
    fail_after = None if fa is None else (n_good - 1 if fa == -1 else fa)
    conn = ModelConnection(fail_after, sqlite3.OperationalError)
    raised = None
    try:
        SQLiteStore(conn).add(traces)
    except Exception as e:  # noqa: BLE001
        raised = e
    got = len(conn.committed)
    if conn.interrupted:
        return check(got == 0 and raised is not None, lambda: f"batch of {n} traces interrupted after {fail_after} rows: {got} rows stayed committed (must be none)")
    # not interrupted (an implementation may write fewer rows than traces by dropping exact duplicates): every DISTINCT
    # serialisable trace must be there
    from monkeytype.encoding import CallTraceRow

    def distinct(rows):  # (plain lists: a 600-element set built under the engine nests its lazy filters too deep)
        out = []
        for r in sorted(repr(tuple(x)) for x in rows):
            if not out or out[-1] != r:
                out.append(r)
        return out

    rows = []
    for tr in traces:
        if not isinstance(tr.func, Unserialisable):
            row = CallTraceRow.from_trace(tr)
            rows.append((row.module, row.qualname, row.arg_types, row.return_type, row.yield_type))
    want = distinct(rows)
    have = distinct(r[:5] for r in conn.committed)
    return check(have == want and raised is None, lambda: f"batch of {n} traces, no interruption: {len(have)} distinct rows committed, {len(want)} distinct serialisable traces, raised {raised!r}")


tape_harness("atomic_big", [("t", 3)], {}, lambda t: atomic_big_body(t, False), globals())
tape_harness("atomic_big_quick", [("t", 3)], {}, lambda t: atomic_big_body(t, True), globals())


def rich_shards(quick=False):
    from engine.verdicts import enumerate_prefixes

    body = (lambda t: atomic_rich_body(t, (2,))) if quick else atomic_rich_body
    return [{f"t{j}": v for j, v in enumerate(p)} for p in enumerate_prefixes(body, 4)]


def big_shards(name):
    from engine.verdicts import enumerate_prefixes

    q = name.endswith("quick")
    return [{f"t{j}": v for j, v in enumerate(p)} for p in enumerate_prefixes(lambda t: atomic_big_body(t, q), 3)]


def atomic_shards():
    from engine.verdicts import enumerate_prefixes

    return [{f"t{j}": v for j, v in enumerate(p)} for p in enumerate_prefixes(lambda t: atomic_body(t, False), 2)]
