"""Value grammar: a tape of (symbolic) ints is decoded into real Python values by branching.

Engine-free (plain Python): under CrossHair the tape symbols are z3-backed ints and every
`take` forks the path; in replay they are ordinary ints.
"""
from __future__ import annotations

from collections import defaultdict

from engine.verdicts import Tape
from vfix import classes as K

KEYS = ("a", "b", "c")


def _gen():
    yield 1


# atom constructors (fresh object per call so identity never leaks between positions)
ATOM_MAKERS = (
    ("int", lambda: 1),
    ("str", lambda: "s"),
    ("None", lambda: None),
    ("bool", lambda: True),
    ("float", lambda: 1.5),
    ("A", lambda: K.A()),
    ("B", lambda: K.B()),
    ("C", lambda: K.C()),
    ("D", lambda: K.D()),
    ("Inner", lambda: K.Outer.Inner()),
    ("cls_A", lambda: K.A),
    ("cls_B", lambda: K.B),
    ("func", lambda: K.plain_function),
    ("lambda", lambda: (lambda: 0)),
    ("bound_method", lambda: K.HasMethod().method),
    ("builtin", lambda: len),
    ("generator", _gen),
    ("MyList", lambda: K.MyList([1])),
    ("MyDict", lambda: K.MyDict(a=1)),
    ("float1", lambda: 1.0),  # 1 == True == 1.0 and they hash alike: value-keyed caches confuse them
)
ATOM_INDEX = {n: i for i, (n, _) in enumerate(ATOM_MAKERS)}

CONTAINERS = ("list", "tuple", "set", "dict_str", "dict_int", "dict_mixed", "defaultdict")


class Grammar:
    """Bounds of one exploration: which atoms at top level / as elements, which containers,
    container size and nesting depth."""

    def __init__(self, top_atoms, elem_atoms, containers=CONTAINERS, max_size=2, depth=1, str_keys=KEYS, dict_max=None):
        self.top_atoms = tuple(top_atoms)
        self.elem_atoms = tuple(elem_atoms)
        self.containers = tuple(containers)
        self.max_size = max_size
        self.depth = depth
        self.str_keys = tuple(str_keys)
        self.dict_max = dict_max if dict_max is not None else max_size

    def describe(self):
        return {
            "top_atoms": self.top_atoms,
            "elem_atoms": self.elem_atoms,
            "containers": self.containers,
            "max_container_size": self.max_size,
            "max_dict_size": self.dict_max,
            "depth": self.depth,
            "str_keys": self.str_keys,
        }


ALL_ATOMS = tuple(n for n, _ in ATOM_MAKERS if n != "float1")
G_QUICK = Grammar(top_atoms=ALL_ATOMS, elem_atoms=("int", "str", "None"), max_size=2, depth=1)
G_SMALL = Grammar(top_atoms=("int", "str", "None", "A", "B"), elem_atoms=("int", "str", "None"),
                  containers=("list", "tuple", "dict_str", "dict_int", "set"), max_size=2, depth=1, str_keys=("a", "b"))
G_TINY = Grammar(top_atoms=("int", "None", "A", "B"), elem_atoms=("int", "str"), containers=("list", "tuple", "dict_str", "set", "dict_int"),
                 max_size=1, depth=1, str_keys=("a",))
G_MEDIUM = Grammar(top_atoms=ALL_ATOMS, elem_atoms=("int", "str", "None", "A", "B", "cls_A"), max_size=2, depth=1)
G_DEEP = Grammar(top_atoms=ALL_ATOMS, elem_atoms=("int", "str", "None", "A", "B"), max_size=2, depth=2)
G_FULL1 = Grammar(top_atoms=ALL_ATOMS, elem_atoms=ALL_ATOMS[:17], max_size=3, depth=1)


# equal-comparing, equal-hashing atoms of three different classes, alone and inside tuples / lists: whatever a
# value-keyed memo (functools.lru_cache on get_type, a dict keyed by the value) confuses shows up in a pair
G_EQ = Grammar(top_atoms=("int", "bool", "float1"), elem_atoms=("int", "bool", "float1", "str"), containers=("tuple", "list"), max_size=2, depth=1)


def _atom(name):
    return ATOM_MAKERS[ATOM_INDEX[name]][1]()


class NestedGrammar:
    """Two-level merges: a list (or tuple) of <= max_len elements, each a str-keyed dict over a key
    subset of `keys` with <= dict_max keys (the value type is determined by the key, so that
    differing keys mean differing value types), an int-keyed dict, or an atom.  This is the shape
    that makes shrink_types merge TypedDicts which themselves carry optional fields."""

    KEY_VALUES = {"a": 1, "b": "s", "c": None, "d": 2.5}

    def __init__(self, keys=("a", "b", "c"), dict_max=2, max_len=2, outer=("list",), extras=("int",), alt=None):
        self.keys, self.dict_max, self.max_len, self.outer, self.extras = tuple(keys), dict_max, max_len, tuple(outer), tuple(extras)
        self.alt = dict(alt or {})  # key -> a second possible value (of another type) for that key
        self.max_size = max_len
        self.depth = 2

    def describe(self):
        return {"outer": self.outer, "max_len": self.max_len, "element": "str-keyed dict over a key subset", "keys": self.keys,
                "max_dict_size": self.dict_max, "value_type_by_key": {k: type(v).__name__ for k, v in self.KEY_VALUES.items() if k in self.keys},
                "extra_elements": self.extras}

    def tape_len(self):
        return 2 + self.max_len * (1 + len(self.keys) + len(self.alt))

    def element(self, t):
        c = t.take(1 + len(self.extras))
        if c > 0:
            return _atom(self.extras[c - 1])
        d = {}
        for k in self.keys:
            if t.take(2) == 1 and len(d) < self.dict_max:
                d[k] = self.KEY_VALUES[k]
                if k in self.alt and t.take(2) == 1:
                    d[k] = self.alt[k]
        return d

    def build(self, t):
        o = self.outer[t.take(len(self.outer))]
        n = t.take(self.max_len + 1)
        elems = [self.element(t) for _ in range(n)]
        return elems if o == "list" else tuple(elems)


G_NESTED = NestedGrammar()
G_NESTED2 = NestedGrammar(keys=("a", "b"), dict_max=2, max_len=2)
G_NESTED4 = NestedGrammar(keys=("a", "b", "c", "d"), dict_max=3, max_len=2, outer=("list", "tuple"))


class ChoiceGrammar:
    """A fixed list of hand-picked value factories (one tape symbol picks one): shapes the recursive grammars do not
    reach at their depth bounds -- containers made only of empty containers, ONE mutable object stored at two
    places, same key with differently typed values."""

    def __init__(self, name, factories):
        self.name, self.factories = name, tuple(factories)
        self.max_size, self.depth = 2, 2

    def tape_len(self):
        return 1

    def describe(self):
        return {"choice_of": [show(f()) for f in self.factories]}

    def build(self, t):
        return self.factories[t.take(len(self.factories))]()


def _aliased_list():
    row = [1, 2]
    return [row, row]


def _aliased_dict():
    d = {"a": 1}
    return {"x": d, "y": d}


class LyingKey:
    """A hashable key whose __class__ CLAIMS to be str (mock specs, lazy text proxies): it is not a string key."""

    @property
    def __class__(self):
        return str

    def __repr__(self):
        return "LyingKey()"


G_ODD = ChoiceGrammar("odd", (
    lambda: ([],), lambda: (1,), lambda: [[]], lambda: [1], lambda: None, lambda: {"a": []}, lambda: {"a": 1}, lambda: [], lambda: (), lambda: {},
    _aliased_list, _aliased_dict, lambda: [set()], lambda: {"a": 1, "b": "s"}, lambda: set(), lambda: [{"a": 1}, []],
    # the same keys in another insertion order with the value types swapped (they match POSITIONALLY), inside a tuple
    lambda: ({"id": 1, "name": "s"},), lambda: ({"name": 2, "id": "x"},),
    # a dict whose only key claims to be a str without being one
    lambda: {LyingKey(): 1},
))
G_ODD12 = ChoiceGrammar("odd12", G_ODD.factories[:12])  # (quick pipeline variant)
# key b carries an int in one dict and a str in another: the same key with different value types across merges
G_NESTED_ALT = None  # set below (needs NestedGrammar)
# two different class objects inside containers; scalars next to them
G_CLS = Grammar(top_atoms=("int",), elem_atoms=("cls_A", "cls_B", "int"), containers=("list", "dict_int", "defaultdict", "tuple"), max_size=2, depth=1)
# str-keyed dicts over two keys (three of them merge through a running intersection / union of key sets)
G_DICT3 = Grammar(top_atoms=("int",), elem_atoms=("int",), containers=("dict_str",), max_size=2, depth=1, str_keys=("a", "b"))


class GrammarSeq:
    """A different grammar per value position (value i is built from grammars[min(i, last)])."""

    def __init__(self, *grammars):
        self.grammars = grammars
        self.max_size = max(g.max_size for g in grammars)
        self.depth = 2

    def for_index(self, i):
        return self.grammars[min(i, len(self.grammars) - 1)]

    def tape_len(self):
        return max(g.tape_len() for g in self.grammars)

    def describe(self):
        return {"per_value": [g.describe() for g in self.grammars]}


# value 0: lists of <= 2 dicts over {a, b} (+ int elements); value 1: lists of <= 1 dict over {a, c, d}:
# the second merge adds NEW keys to TypedDicts that already carry optional fields
G_NESTED_ALT = GrammarSeq(NestedGrammar(keys=("a", "b"), dict_max=2, max_len=2, extras=(), alt={"b": 2}),
                         NestedGrammar(keys=("a", "b"), dict_max=2, max_len=1, extras=(), alt={"b": 2}))
G_NESTEDX = GrammarSeq(NestedGrammar(keys=("a", "b"), dict_max=2, max_len=2), NestedGrammar(keys=("a", "c", "d"), dict_max=2, max_len=1, extras=()))


def build_value(t: Tape, g, depth=None, top=True):
    if hasattr(g, "build"):
        return g.build(t)
    if depth is None:
        depth = g.depth
    atoms = g.top_atoms if top else g.elem_atoms
    n_atoms = len(atoms)
    if depth <= 0:
        return _atom(atoms[t.take(n_atoms)])
    c = t.take(n_atoms + len(g.containers))
    if c < n_atoms:
        return _atom(atoms[c])
    kind = g.containers[c - n_atoms]
    if kind.startswith("dict") or kind == "defaultdict":
        n = t.take(g.dict_max + 1)
    else:
        n = t.take(g.max_size + 1)
    if kind == "list":
        return [build_value(t, g, depth - 1, False) for _ in range(n)]
    if kind == "tuple":
        return tuple(build_value(t, g, depth - 1, False) for _ in range(n))
    if kind == "set":
        # hashable, distinct elements: the first n of a fixed atom list
        return set((1, "s", None)[:n])
    if kind == "dict_str":
        d = {}
        for i in range(n):
            k = g.str_keys[t.take(len(g.str_keys))] if g.dict_max <= len(g.str_keys) else "k%d" % i
            d[k] = build_value(t, g, depth - 1, False)
        return d
    if kind == "dict_int":
        return {i: build_value(t, g, depth - 1, False) for i in range(n)}
    if kind == "dict_mixed":
        d = {}
        for i in range(n):
            d[(0, "a", "b")[i % 3] if i < 3 else i] = build_value(t, g, depth - 1, False)
        return d
    if kind == "defaultdict":
        d = defaultdict(int)
        for i in range(n):
            d[g.str_keys[i % len(g.str_keys)] if i < len(g.str_keys) else "k%d" % i] = build_value(t, g, depth - 1, False)
        return d
    raise AssertionError(kind)


def show(v, depth=0):
    """Stable human-readable rendering of a grammar value (for evidence samples)."""
    if isinstance(v, defaultdict):
        return "defaultdict(" + show(dict(v)) + ")"
    if type(v) is dict:
        return "{" + ", ".join(f"{k!r}: {show(x)}" for k, x in v.items()) + "}"
    if type(v) is list:
        return "[" + ", ".join(show(x) for x in v) + "]"
    if type(v) is tuple:
        return "(" + ", ".join(show(x) for x in v) + ("," if len(v) == 1 else "") + ")"
    if type(v) is set:
        return "{" + ", ".join(sorted(map(repr, v))) + "}" if v else "set()"
    if isinstance(v, type):
        return v.__qualname__
    if type(v).__module__ == K.__name__:
        return type(v).__qualname__ + "()" if not isinstance(v, (list, dict)) else type(v).__qualname__ + "(" + repr(list(v) if isinstance(v, list) else dict(v)) + ")"
    if callable(v) or hasattr(v, "__next__"):
        return "<" + type(v).__name__ + ">"
    return repr(v)
