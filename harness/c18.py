"""C18 -- sampling thins traces without distorting them.

Symbolic: the sampling rate (None / 0 / 1 / any N >= 2 as an unconstrained int), every draw
returned by random.randrange (environment stub constrained only by 0 <= r < N), the event script
of one generator-like frame (first call, 0..n yield/resume pairs, final exit), whether the body
rebinds its parameter between yields, entry / yield / return values.
Real code: CallTracer.__call__/handle_call/handle_return.
"""
from __future__ import annotations

from typing import Union

from harness.common import ASSUME, FAIL, PASS, Skip, check, tape_harness  # noqa: F401
from harness import oracles as O
from harness.frames import AT_RAISE, AT_RETURN, AT_YIELD, REPR_MSG, CodeView, FakeFrame, ListLogger, RETURN_OPS, YIELD_OP, representation_ok, residue, seed_function
from harness.values import Grammar, build_value, show
from vfix import funcs as F

from engine import verdicts as _V

import monkeytype.tracing as T
from monkeytype.tracing import CallTracer
from monkeytype.typing import get_type

FUNCTIONS = [
    "monkeytype.tracing.CallTracer.__call__",
    "monkeytype.tracing.CallTracer.handle_call (sampling draw, resumption test, argument binding)",
    "monkeytype.tracing.CallTracer.handle_return",
]
G_ATOM = Grammar(top_atoms=("int", "str", "None"), elem_atoms=("int",), containers=(), max_size=0, depth=0)
RETURN_OP = sorted(RETURN_OPS)[0]
RAISE_OP = 0  # any opcode that is neither a return nor a yield: exit by exception


class ScriptedRandom:
    """Environment stub for `random`: randrange returns the next scripted (symbolic) draw."""

    def __init__(self, draws):
        self.draws = list(draws)
        self.i = 0
        self.calls = []
        self.bad = False

    def randrange(self, n):
        # (the tracer swallows exceptions, so contract violations are flagged, not raised)
        if self.i >= len(self.draws):
            self.bad = True  # more draws than the script provides: outside the bound
            return 0
        d = self.draws[self.i]
        self.i += 1
        if not (0 <= d and d < n):
            self.bad = True  # the contract of randrange: 0 <= r < n
            return 0
        self.calls.append(n)
        return d

    def __getattr__(self, name):
        # any other function of the random module: the stub models randrange only, so a tracer that draws in another way
        # (random.random(), getrandbits ...) cannot be judged here -- inconclusive, neither a pass nor a violation
        if name.startswith("__"):
            raise AttributeError(name)
        self.unmodelled = name
        raise AttributeError(f"ScriptedRandom does not model random.{name}")

    unmodelled = None

    def __ch_deep_realize__(self, memo):
        return self


def sampling_body(t, rate, d0, d1, d2, d3, max_pairs=2):
    if not representation_ok():
        return _V.INCONCLUSIVE(REPR_MSG)
    rate_kind = t.take(4)  # None, 0, 1, N>=2
    if rate_kind == 0:
        r = None
    elif rate_kind == 1:
        r = 0
    elif rate_kind == 2:
        r = 1
    else:
        ASSUME(rate >= 2)
        r = rate
    func = (F.gen_rebinding, F.mod_func, F.gen_func, F.coro_func)[t.take(4)]
    is_coro = func is F.coro_func  # its suspensions are awaits: never yields, but the frame is suspended and resumed all the same
    names = func.__code__.co_varnames[: func.__code__.co_argcount]
    entry = {n: build_value(t, G_ATOM) for n in names}
    n_pairs = t.take(max_pairs + 1) if func is not F.mod_func else 0
    rebinding = t.take(2) == 1 if n_pairs else False
    # the first resumption may be a throw() that the body handles: CPython then delivers the exception as the call event's arg
    thrown = t.take(2) == 1 if n_pairs else False
    yields = [build_value(t, G_ATOM) for _ in range(n_pairs)]
    final = t.take(2)  # 0 = returns a value, 1 = exits by exception
    ret_val = build_value(t, G_ATOM) if final == 0 else None

    logger = ListLogger()
    rnd = ScriptedRandom([d0, d1, d2, d3])
    saved = T.random
    T.random = rnd
    try:
        tracer = CallTracer(logger, 0, None, r)
        fr = FakeFrame(CodeView(func.__code__), dict(entry))
        seed_function(tracer, fr.f_code, func)
        # --- the script, as CPython would deliver it
        tracer(fr, "call", None)
        draws_at_first_call = list(rnd.calls)
        first_draw_used = rnd.i
        for i in range(n_pairs):
            fr.f_lasti = AT_YIELD
            tracer(fr, "return", yields[i])
            if rebinding:
                # the body rebinds its parameter (and creates locals) between yields
                fr.f_locals[names[0]] = [i, "rebound"]
                fr.f_locals["tmp"] = i
            tracer(fr, "call", ValueError("thrown in, handled by the body") if (thrown and i == 0) else None)
        fr.f_lasti = AT_RETURN if final == 0 else AT_RAISE
        tracer(fr, "return", ret_val)
    except AttributeError:
        if not rnd.unmodelled:  # (an unmodelled random.* function: judged INCONCLUSIVE below)
            raise
    finally:
        T.random = saved
    if rnd.unmodelled:
        return _V.INCONCLUSIVE(f"the tracer draws with random.{rnd.unmodelled}, which the environment stub does not model (only random.randrange)")
    ASSUME(not rnd.bad)
    # --- oracle
    if r is None or r == 0 or r == 1:
        sampled = True
    else:
        sampled = first_draw_used >= 1 and d0 == 0
    left = residue(tracer, fr)
    if left:
        return check(False, lambda: f"per-call state left in tracer.{left[0]} after the call finished (rate={_i(r)})")
    if not sampled:
        return check(not logger.traces, lambda: f"call not sampled at its first call event (rate={_i(r)}, draws={_draws(rnd)}) "
                                                  f"but {len(logger.traces)} trace(s) logged: {logger.traces[0]!r}")
    if len(logger.traces) != 1:
        return check(False, lambda: f"sampled call (rate={_i(r)}) logged {len(logger.traces)} traces")
    tr = logger.traces[0]
    if tr.func is not func or set(tr.arg_types) != set(entry):
        return check(False, "wrong function or argument names")
    for n, v in entry.items():
        if not O.struct_eq(tr.arg_types[n], get_type(v, 0)):
            return check(False, lambda: f"argument {n}: logged {O.show_type(tr.arg_types[n])}, the call's argument was {show(v)}")
    want_y = Union[tuple(get_type(y, 0) for y in yields)] if (yields and not is_coro) else None
    if (want_y is None) != (tr.yield_type is None) or (want_y is not None and not O.struct_eq(tr.yield_type, want_y, True)):
        return check(False, lambda: f"yield type {O.show_type(tr.yield_type)} != {O.show_type(want_y)}")
    if final == 0:
        ok = tr.return_type is not None and O.struct_eq(tr.return_type, get_type(ret_val, 0))
    else:
        ok = tr.return_type is None
    return check(ok, lambda: f"return type {O.show_type(tr.return_type)} for final={final} value {show(ret_val)}")


def two_frames_body(t, rate, d0, d1, d2, d3):
    """Two live frames of the SAME generator function, interleaved (per-frame, not per-code, state)."""
    if not representation_ok():
        return _V.INCONCLUSIVE(REPR_MSG)
    rate_kind = t.take(3)  # None, 1, N>=2
    if rate_kind == 0:
        r = None
    elif rate_kind == 1:
        r = 1
    else:
        ASSUME(rate >= 2)
        r = rate
    func = F.gen_rebinding
    cv = CodeView(func.__code__)
    entries = [{"x": build_value(t, G_ATOM)}, {"x": build_value(t, G_ATOM)}]
    frames = [FakeFrame(cv, dict(entries[0])), FakeFrame(cv, dict(entries[1]))]
    yields = [build_value(t, G_ATOM), build_value(t, G_ATOM)]
    order = t.take(3)
    # event scripts: (frame index, kind); every frame does call, yield, resume, return
    scripts = (
        ((0, "call"), (0, "yield"), (1, "call"), (1, "yield"), (0, "resume"), (0, "return"), (1, "resume"), (1, "return")),
        ((0, "call"), (1, "call"), (0, "yield"), (1, "yield"), (1, "resume"), (1, "return"), (0, "resume"), (0, "return")),
        ((0, "call"), (0, "yield"), (1, "call"), (1, "yield"), (1, "resume"), (0, "resume"), (1, "return"), (0, "return")),
    )[order]
    logger = ListLogger()
    rnd = ScriptedRandom([d0, d1, d2, d3])
    saved = T.random
    T.random = rnd
    sampled = [None, None]
    finished = []
    try:
        tracer = CallTracer(logger, 0, None, r)
        seed_function(tracer, cv, func)
        for idx, kind in scripts:
            fr = frames[idx]
            if kind == "call":
                before = rnd.i
                tracer(fr, "call", None)
                used = rnd.draws[before: rnd.i]
                sampled[idx] = True if (r is None or r == 1) else (len(used) >= 1 and used[0] == 0)
            elif kind == "yield":
                fr.f_lasti = AT_YIELD
                tracer(fr, "return", yields[idx])
                fr.f_locals["x"] = ["rebound", idx]
                fr.f_locals["tmp"] = idx
            elif kind == "resume":
                tracer(fr, "call", None)
            else:
                fr.f_lasti = AT_RETURN
                tracer(fr, "return", None)
                finished.append(idx)
    except AttributeError:
        if not rnd.unmodelled:  # (an unmodelled random.* function: judged INCONCLUSIVE below)
            raise
    finally:
        T.random = saved
    if rnd.unmodelled:
        return _V.INCONCLUSIVE(f"the tracer draws with random.{rnd.unmodelled}, which the environment stub does not model")
    ASSUME(not rnd.bad)
    for fr in frames:
        left = residue(tracer, fr)
        if left:
            return check(False, lambda: f"per-call state left in tracer.{left[0]} after both calls finished")
    want = [i for i in finished if sampled[i]]
    if len(logger.traces) != len(want):
        return check(False, lambda: f"script {order}, rate={_i(r)}, draws={_draws(rnd)}: {len(logger.traces)} traces logged, "
                                    f"the calls sampled at their first call event were {want}: {logger.traces!r}")
    for tr, i in zip(logger.traces, want):
        v = entries[i]["x"]
        if tr.func is not func or set(tr.arg_types) != {"x"} or not O.struct_eq(tr.arg_types["x"], get_type(v, 0)):
            return check(False, lambda: f"script {order}, rate={_i(r)}, draws={_draws(rnd)}: trace of call #{i} has arguments {tr.arg_types}, the call received {show(v)}")
        if tr.yield_type is None or not O.struct_eq(tr.yield_type, get_type(yields[i], 0)):
            return check(False, lambda: f"trace of call #{i}: yield type {O.show_type(tr.yield_type)} != type of {show(yields[i])}")
        if tr.return_type is None:
            return check(False, "return type lost")
    return check(True)


def _code_offset(code, names):
    import opcode as _op

    ops = {_op.opmap[n] for n in names if n in _op.opmap}
    raw = code.co_code
    for i in range(0, len(raw), 2):
        if raw[i] in ops:
            return i
    raise AssertionError(f"no {names} in {code.co_name}")


def abandon_body(t, rate, d0, d1, d2, d3):
    """A generator frame is abandoned while suspended (its close is delivered as return@YIELD_VALUE with None and
    no further event ever names it), the frame object dies, and a NEW frame -- which the allocator may place at
    the dead frame's address -- makes a complete call.  Whatever the tracer kept about the dead frame must not be
    taken for the new one: the new call is sampled on its own draw and traced with its own values."""
    rate_kind = t.take(3)  # None, 1, N>=2
    if rate_kind == 0:
        r = None
    elif rate_kind == 1:
        r = 1
    else:
        ASSUME(rate >= 2)
        r = rate
    func = F.gen_rebinding
    # real code object, real bytecode offsets, function found through the module globals: nothing of the tracer's
    # internal representation is touched (this harness must keep judging when that representation changes)
    code = func.__code__
    y_off, r_off = _code_offset(code, ("YIELD_VALUE",)), _code_offset(code, ("RETURN_VALUE", "RETURN_CONST"))
    entry_a, entry_b = {"x": build_value(t, G_ATOM)}, {"x": build_value(t, G_ATOM)}
    n_yields_a = 1 + t.take(2)
    close_delivered = t.take(2) == 1
    y_b = build_value(t, G_ATOM)
    ret_b = build_value(t, G_ATOM)
    logger = ListLogger()
    rnd = ScriptedRandom([d0, d1, d2, d3])
    saved = T.random
    T.random = rnd
    try:
        tracer = CallTracer(logger, 0, None, r)
        fa = FakeFrame(code, dict(entry_a), vars(F), None, 0)
        tracer(fa, "call", None)
        for i in range(n_yields_a):
            fa.f_lasti = y_off
            tracer(fa, "return", i)
            if i + 1 < n_yields_a:
                tracer(fa, "call", None)
        if close_delivered:
            fa.f_lasti = y_off
            tracer(fa, "call", GeneratorExit())  # how CPython 3.12 reports the close of a suspended generator:
            tracer(fa, "return", None)  # the exception as the call event's arg, then return@YIELD_VALUE with None
        logged_before = len(logger.traces)
        old_id = id(fa)
        del fa
        spare = []
        fb = FakeFrame(code, dict(entry_b), vars(F), None, 0)
        while id(fb) != old_id and len(spare) < 300:  # adversarial allocator
            spare.append(fb)
            fb = FakeFrame(code, dict(entry_b), vars(F), None, 0)
        before = rnd.i
        tracer(fb, "call", None)
        used = rnd.draws[before: rnd.i]
        sampled_b = True if (r is None or r == 1) else (len(used) >= 1 and used[0] == 0)
        draws_b = len(used)
        fb.f_lasti = y_off
        tracer(fb, "return", y_b)
        fb.f_locals["x"] = ["rebound"]
        tracer(fb, "call", None)
        fb.f_lasti = r_off
        tracer(fb, "return", ret_b)
    except AttributeError:
        if not rnd.unmodelled:  # (an unmodelled random.* function: judged INCONCLUSIVE below)
            raise
    finally:
        T.random = saved
    if rnd.unmodelled:
        return _V.INCONCLUSIVE(f"the tracer draws with random.{rnd.unmodelled}, which the environment stub does not model")
    ASSUME(not rnd.bad)
    new = logger.traces[logged_before:]
    if not (r is None or r == 1) and draws_b != 1:
        return check(False, lambda: f"rate={_i(r)}: the new call took {draws_b} sampling draws instead of one (aliased={id(fb) == old_id}): it was "
                                    f"{'taken for a resumption of the dead frame' if draws_b == 0 else 'drawn for more than once'}")
    if not sampled_b:
        return check(not new, lambda: f"rate={_i(r)} draws={_draws(rnd)}: the new call was not sampled but {len(new)} trace(s) were logged")
    if len(new) != 1:
        return check(False, lambda: f"rate={_i(r)} draws={_draws(rnd)}: a complete, sampled call after an abandoned generator logged {len(new)} traces "
                                    f"(aliased={id(fb) == old_id})")
    tr = new[0]
    if set(tr.arg_types) != {"x"} or not O.struct_eq(tr.arg_types["x"], get_type(entry_b["x"], 0)):
        return check(False, lambda: f"the new call received {show(entry_b['x'])} but its trace says {tr.arg_types} (the abandoned call had {show(entry_a['x'])})")
    if tr.yield_type is None or not O.struct_eq(tr.yield_type, get_type(y_b, 0)):
        return check(False, lambda: f"the new call yielded {show(y_b)} but its trace says {O.show_type(tr.yield_type)}")
    if tr.return_type is None or not O.struct_eq(tr.return_type, get_type(ret_b, 0)):
        return check(False, lambda: f"the new call returned {show(ret_b)} but its trace says {O.show_type(tr.return_type)}")
    return check(not residue(tracer, fb), "per-call state of the finished call left in the tracer")


class CyclicRandom(ScriptedRandom):
    """randrange returns the scripted (symbolic) draws in a cycle: call number i gets draws[i % len(draws)]."""

    def randrange(self, n):
        d = self.draws[self.i % len(self.draws)]
        self.i += 1
        if not (0 <= d and d < n):
            self.bad = True
            return 0
        self.calls.append(n)
        return d


def realrun_sampled_body(t):
    """The recorded real workload (real code objects, real bytecode offsets: `yield from` delegation, coroutines that
    really await, generators that rebind their parameters, interleaved generator frames) under sampling: every NEW call
    takes exactly one draw (the i-th new call gets draw i mod 3), resumptions take none; the logged traces are exactly the
    reference traces of the calls whose own draw was 0.  (Rate and draws are tape-decoded here: that the decision is
    `randrange(N) == 0` for EVERY N and every draw value is the business of the model-frame harnesses above.)"""
    import harness.c02 as C2

    r = (None, 1, 2, 3)[t.take(4)]
    d0, d1, d2 = t.take(2), t.take(2), t.take(2)
    evs = C2.recorded_events()
    draws = [d0, d1, d2]
    # reference: which frames are new calls (in order), and the unsampled log
    order, seen = [], set()
    for e in evs:
        if e.event == "call" and e.frame_id not in seen:
            seen.add(e.frame_id)
            order.append(e.frame_id)
    expected_all, _unfinished = C2._expected_log(evs, lambda code: True, 0)
    # frames of unresolvable functions take no draw?  they do: the draw precedes function lookup
    logger = ListLogger()
    rnd = CyclicRandom(draws)
    saved = T.random
    T.random = rnd
    proxies = {}
    try:
        tracer = CallTracer(logger, 0, None, r)
        for e in evs:
            fr = proxies.get(e.frame_id)
            if fr is None:
                back = None
                for locs in reversed(e.back_locals):
                    back = FakeFrame(None, locs, {}, back)
                fr = proxies[e.frame_id] = FakeFrame(e.code, {}, e.globals, back)
            fr.f_locals, fr.f_lasti = e.locals, e.lasti
            tracer(fr, e.event, e.arg)
    except AttributeError:
        if not rnd.unmodelled:  # (an unmodelled random.* function: judged INCONCLUSIVE below)
            raise
    finally:
        T.random = saved
    if rnd.unmodelled:
        return _V.INCONCLUSIVE(f"the tracer draws with random.{rnd.unmodelled}, which the environment stub does not model")
    ASSUME(not rnd.bad)
    sampling = not (r is None or r == 1)
    if sampling and rnd.i != len(order):
        return check(False, lambda: f"rate={_i(r)}: {rnd.i} sampling draws were taken for {len(order)} new calls (a resumption was drawn for, or a new call was not)")
    sampled = {fid: (not sampling) or (draws[i % 3] == 0) for i, fid in enumerate(order)}
    # expected log: the reference entries of sampled frames, in completion order
    done_order = []
    state = {}
    for e in evs:
        if e.event == "return":
            kind = C2.classify_exit(e.op, bool(e.code.co_flags & C2.CO_COROUTINE))
            if kind in ("return", "exception"):
                done_order.append(e.frame_id)
    want = [(fid, ent) for fid, ent in zip(done_order, expected_all) if sampled[fid]]
    got = list(logger.traces)
    gi = 0
    for fid, (code, entry, ret_present, ret_value, yields) in want:
        optional = code.co_name in C2.UNRESOLVABLE_OK
        tr = got[gi] if gi < len(got) else None
        if tr is None or getattr(tr.func, "__code__", None) is not code:
            if optional:
                continue
            return check(False, lambda: f"rate={_i(r)} draws={[int(x) for x in draws]}: the sampled call of {code.co_qualname} is not in the log at its place "
                                        f"(logged there: {tr.func.__qualname__ if tr is not None else 'nothing'})")
        truth = C2._truth_function(code)
        rr = C2._same_trace(tr, truth if truth is not None else tr.func, entry, ret_present, ret_value, yields, 0)
        if rr:
            return check(False, lambda: f"rate={_i(r)} draws={[int(x) for x in draws]}: trace of {code.co_qualname}: {rr}")
        gi += 1
    if gi != len(got):
        return check(False, lambda: f"rate={_i(r)} draws={[int(x) for x in draws]}: {len(got) - gi} trace(s) logged for calls whose own draw was not 0 "
                                    f"(first: {got[gi].func.__qualname__})")
    left = [n for fid, fr in proxies.items() if fid not in _unfinished for n in residue(tracer, fr)]
    return check(not left, lambda: f"per-call state left in tracer.{left[0]} after every call finished")


tape_harness("realrun_sampled", [("t", 4)], {}, realrun_sampled_body, globals())
tape_harness("abandon", [("t", 8)], {"rate": "int", "d0": "int", "d1": "int", "d2": "int", "d3": "int"}, abandon_body, globals())
tape_harness("sampling_two", [("t", 8)], {"rate": "int", "d0": "int", "d1": "int", "d2": "int", "d3": "int"}, two_frames_body, globals())


def _i(x):
    return None if x is None else int(x)


def _draws(rnd):
    return [int(d) for d in rnd.draws[: rnd.i]]


def _mk(name, tape_n, **kw):
    def body(t, rate, d0, d1, d2, d3):
        return sampling_body(t, rate, d0, d1, d2, d3, **kw)

    body.__doc__ = "one frame's event script under sampling"
    tape_harness(name, [("t", tape_n)], {"rate": "int", "d0": "int", "d1": "int", "d2": "int", "d3": "int"}, body, globals())


_mk("sampling_quick", 15, max_pairs=2)
_mk("sampling_thorough", 17, max_pairs=3)


def shards(name):
    from engine.verdicts import enumerate_prefixes

    if name == "sampling_two":
        return [{f"t{j}": v for j, v in enumerate(p)} for p in enumerate_prefixes(lambda t: two_frames_body(t, 2, 0, 0, 0, 0), 3)]
    if name == "realrun_sampled":
        return [{"t0": i, "t1": a, "t2": b, "t3": c} for i in range(4) for a in (0, 1) for b in (0, 1) for c in (0, 1) if i >= 2 or (a, b, c) == (0, 0, 0)]
    if name == "abandon":
        return [{f"t{j}": v for j, v in enumerate(p)} for p in enumerate_prefixes(lambda t: abandon_body(t, 2, 0, 0, 0, 0), 3)]
    mp = 2 if name == "sampling_quick" else 3
    pres = enumerate_prefixes(lambda t: sampling_body(t, 2, 0, 0, 0, 0, max_pairs=mp), 4)
    return [{f"t{j}": v for j, v in enumerate(p)} for p in pres]


def describe(name, args):
    return {"rate": args.get("rate"), "draws": [args.get(f"d{i}") for i in range(4)],
            "tape": [args[k] for k in sorted((k for k in args if k[0] == "t" and k[1:].isdigit()), key=lambda s: int(s[1:]))][:10]}
