"""C03 (claimed in part): (b) failures inside type collection, function lookup or the logger are
contained; (c) trace_calls restores the previous profiler and flushes exactly once on every exit.

Symbolic: one bool per injectable fault site, the exception class selector, the event, whether
the traced block raises, whether flush raises, whether a profiler was installed before; for the
config-threading harness k and the sample rate.
"""
from __future__ import annotations

from harness.common import ASSUME, FAIL, PASS, check, tape_harness  # noqa: F401
from harness.frames import AT_OP, AT_RAISE, AT_RETURN, AT_YIELD, CodeView, FakeFrame, RETURN_OPS, YIELD_OP
from vfix import funcs as F

import monkeytype
import monkeytype.tracing as T
from monkeytype.config import Config
from monkeytype.tracing import CallTracer, trace_calls

FUNCTIONS = [
    "monkeytype.tracing.CallTracer.__call__ (try/except around handle_call/handle_return)",
    "monkeytype.tracing.CallTracer.handle_call / handle_return / _get_func",
    "monkeytype.tracing.trace_calls",
    "monkeytype.trace",
    "monkeytype.typing.get_type / get_dict_type / shrink_types (hook freedom: what they touch on the program's objects)",
    "monkeytype.tracing.get_func / get_func_in_mro / _has_code / get_locals_from_previous_frames (hook freedom)",
]
EXC = (Exception, ValueError, RecursionError, AttributeError, KeyError, TypeError)


class Boom:
    """An object whose inspection raises: isinstance()/type dispatch consult __class__."""

    def __init__(self, exc):
        object.__setattr__(self, "_exc", exc)

    @property
    def __class__(self):
        raise object.__getattribute__(self, "_exc")("inspection raises")


class FaultyLogger:
    def __init__(self, log_raises, exc):
        self.log_raises, self.exc = log_raises, exc
        self.logged = 0

    def log(self, trace):
        self.logged += 1
        if self.log_raises:
            raise self.exc("log raises")

    def flush(self):
        pass

    def __ch_deep_realize__(self, memo):
        return self


def contain_body(t, f_argtype, f_rettype, f_lookup, f_log, f_evil_arg, f_evil_ret):
    exc = EXC[t.take(len(EXC))]
    event_script = t.take(3)  # 0: call only, 1: call+return, 2: call+yield+call+return
    real_get_type, real_get_func = T.get_type, T.get_func
    state = {"n": 0}

    def get_type_stub(obj, max_typed_dict_size):
        state["n"] += 1
        if isinstance(obj, _ArgMarker) and f_argtype:
            raise exc("get_type on an argument raises")
        if isinstance(obj, _RetMarker) and f_rettype:
            raise exc("get_type on the return value raises")
        return real_get_type(obj, max_typed_dict_size)

    def get_func_stub(frame):
        if f_lookup:
            raise exc("function lookup raises")
        return F.gen_func

    logger = FaultyLogger(f_log, exc)
    tracer = CallTracer(logger, 0, None, None)
    arg = Boom(exc) if f_evil_arg else _ArgMarker()
    retv = Boom(exc) if f_evil_ret else _RetMarker()
    fr = FakeFrame(CodeView(F.gen_func.__code__), {"n": arg})
    T.get_type, T.get_func = get_type_stub, get_func_stub
    try:
        try:
            r = tracer(fr, "call", None)
            ok = r is tracer
            if event_script >= 2:
                fr.f_lasti = AT_YIELD
                ok = ok and tracer(fr, "return", retv) is tracer
                ok = ok and tracer(fr, "call", None) is tracer
            if event_script >= 1:
                fr.f_lasti = AT_RETURN
                ok = ok and tracer(fr, "return", retv) is tracer
        except Exception as e:  # noqa: BLE001 - this is the violation being looked for
            return check(False, lambda: f"{type(e).__name__}({e}) escaped CallTracer.__call__ into the traced program "
                                        f"(faults: argtype={bool(f_argtype)} rettype={bool(f_rettype)} lookup={bool(f_lookup)} "
                                        f"log={bool(f_log)} evil_arg={bool(f_evil_arg)} evil_ret={bool(f_evil_ret)}, class {exc.__name__})")
    finally:
        T.get_type, T.get_func = real_get_type, real_get_func
    return check(ok, "__call__ did not return the tracer")


class _ArgMarker:
    pass


class _RetMarker:
    pass


tape_harness("contain", [("t", 2)], {"f_argtype": "bool", "f_rettype": "bool", "f_lookup": "bool", "f_log": "bool",
                                      "f_evil_arg": "bool", "f_evil_ret": "bool"}, contain_body, globals())


# ---------------------------------------------------------------- (c) trace_calls
class FakeSys:
    """Stands in for the `sys` module inside monkeytype.tracing (the engine's own tracer must not
    be displaced by a real sys.setprofile)."""

    def __init__(self, profile):
        self.profile = profile
        self.journal = []

    def getprofile(self):
        return self.profile

    def setprofile(self, p):
        self.profile = p
        self.journal.append(("setprofile", p))

    def __ch_deep_realize__(self, memo):
        return self


class BodyError(Exception):
    pass


class FlushError(Exception):
    pass


class JournalLogger:
    def __init__(self, fake_sys, flush_raises):
        self.fake_sys, self.flush_raises = fake_sys, flush_raises
        self.flushes = 0
        self.profile_at_flush = []

    def log(self, trace):
        pass

    def flush(self):
        self.flushes += 1
        self.profile_at_flush.append(self.fake_sys.profile)
        if self.flush_raises:
            raise FlushError()

    def __ch_deep_realize__(self, memo):
        return self


def context_body(body_raises, flush_raises, had_profiler, k, rate, via_config):
    old = (lambda *a: None) if had_profiler else None
    fs = FakeSys(old)
    logger = JournalLogger(fs, flush_raises)
    code_filter = lambda code: True  # noqa: E731
    real_sys = T.sys
    T.sys = fs
    seen = {}
    raised = None
    try:
        if via_config:
            class Cfg(Config):
                def trace_store(self):
                    raise AssertionError("not used")

                def trace_logger(self):
                    return logger

                def code_filter(self):
                    return code_filter

                def sample_rate(self):
                    return rate

                def max_typed_dict_size(self):
                    return k

            cm = monkeytype.trace(Cfg())
        else:
            cm = trace_calls(logger, k, code_filter, rate)
        try:
            with cm:
                seen["installed"] = fs.profile
                if body_raises:
                    raise BodyError()
        except (BodyError, FlushError) as e:
            raised = e
    finally:
        T.sys = real_sys
    inst = seen.get("installed")
    if not isinstance(inst, CallTracer):
        return check(False, "no CallTracer installed inside the block")
    if inst.logger is not logger or inst.should_trace is not code_filter:
        return check(False, "installed tracer does not use the configured logger / code filter")
    if not (inst.max_typed_dict_size is k or inst.max_typed_dict_size == k):
        return check(False, "max_typed_dict_size not threaded to the tracer")
    if not (inst.sample_rate is rate or inst.sample_rate == rate or (not rate and inst.sample_rate in (None, 0, 1))):
        return check(False, "sample_rate not threaded to the tracer")
    if fs.profile is not old:
        return check(False, lambda: f"previous profiler not restored (body_raises={bool(body_raises)}, flush_raises={bool(flush_raises)})")
    if logger.flushes != 1:
        return check(False, lambda: f"logger flushed {logger.flushes} times (body_raises={bool(body_raises)})")
    if logger.profile_at_flush[0] is not old:
        return check(False, "flush ran while the tracer was still installed (a raising flush would leave it in place)")
    if flush_raises:
        ok = isinstance(raised, FlushError)
    elif body_raises:
        ok = isinstance(raised, BodyError)
    else:
        ok = raised is None
    return check(ok, lambda: f"exception seen by the program: {raised!r} (body_raises={bool(body_raises)}, flush_raises={bool(flush_raises)})")


tape_harness("context", [], {"body_raises": "bool", "flush_raises": "bool", "had_profiler": "bool", "k": "int", "rate": "int", "via_config": "bool"},
             context_body, globals())


# ---------------------------------------------------------------- hook freedom
from engine import verdicts as _V  # noqa: E402
from harness import tripwires as TW  # noqa: E402
from harness.frames import ListLogger  # noqa: E402
from harness.known import listed  # noqa: E402
import monkeytype.typing as MT  # noqa: E402

POSITIONS = (
    "arg", "arg-in-list", "arg-in-tuple", "arg-dict-value-strkey", "arg-dict-value-intkey", "arg-dict-key", "arg-in-set",
    "arg-defaultdict-value", "arg-in-list-in-list", "arg-in-tuple-in-tuple", "arg-in-dict-in-dict", "return", "return-in-list", "yield", "receiver", "global-unrelated", "global-named-like-function",
    "caller-local", "first-arg-of-unresolvable", "global-bound-method",
)
_RET_OP = sorted(RETURN_OPS)[0]


import types  # noqa: E402


def _ret_offset(code):
    import opcode as _op

    raw = code.co_code
    for i in range(0, len(raw), 2):
        if raw[i] in (_op.opmap.get("RETURN_VALUE"), _op.opmap.get("RETURN_CONST")):
            return i
    raise AssertionError("no return instruction")


class _Globals(dict):
    """f_globals of a model frame (a real dict, as in CPython)."""


class _GlobalRandomSpy:
    """Stands in for the `random` module as monkeytype.tracing sees it.  Every use of a module-level function (they all draw
    from ONE process-wide generator, the one the traced program's own random numbers come from) is recorded; a generator of
    the tracer's own (`random.Random()`, `random.SystemRandom()`) is not the program's and is handed out freely."""

    def __init__(self):
        import random as _r

        self.used = []
        self._r = _r

    def __getattr__(self, name):
        if name in ("Random", "SystemRandom"):
            real = getattr(self._r, name)

            class _Private(real):  # deterministic draws: always "trace this call"
                def randrange(self, *a, **k):
                    return 0

                def getrandbits(self, *a, **k):
                    return 0

                def random(self):
                    return 0.0

            return _Private
        self.used.append(name)
        return lambda *a, **k: 0


def _rng_run(rate, ncalls):
    import random as _r

    spy = _GlobalRandomSpy()
    saved = {n: v for n, v in vars(T).items() if v is _r or getattr(v, "__self__", None) is getattr(_r, "_inst", object())}
    for n, v in saved.items():
        T.__dict__[n] = spy if v is _r else (lambda *a, _n=n, **k: (spy.used.append(_n), 0)[1])
    try:
        tracer = CallTracer(ListLogger(), 0, None, rate)
        for i in range(ncalls):
            fr = FakeFrame(F.mod_func.__code__, {"a": i, "b": "x"}, vars(F), None, 0)
            tracer(fr, "call", None)
            fr.f_lasti = _return_lasti(F.mod_func.__code__)
            tracer(fr, "return", i)
    finally:
        for n, v in saved.items():
            T.__dict__[n] = v
    return spy.used


def _return_lasti(code):
    import dis

    return [i.offset for i in dis.get_instructions(code) if i.opname in ("RETURN_VALUE", "RETURN_CONST")][-1]


RNG_RATES = (None, 0, 1, 2, 3)


def rng_body(t):
    """The traced program's random numbers: `random.random()`, `random.shuffle(...)` ... all draw from one process-wide
    generator.  A tracer that draws from it as well changes what a seeded program computes."""
    rate = RNG_RATES[t.take(len(RNG_RATES))]
    ncalls = 1 + t.take(3)
    used = _rng_run(rate, ncalls)
    return check(not used, lambda: f"sample_rate={rate!r}, {ncalls} call(s): the tracer used the process-wide random generator "
                                   f"(random.{used[0]}, {len(used)} time(s)): a seeded program gets other random numbers when traced")


tape_harness("rng", [("t", 2)], {}, rng_body, globals())


def rng_witness():
    used = _rng_run(2, 1)
    return check(not used, lambda: f"sample_rate=2: the tracer drew from the process-wide generator (random.{used[0]})")


def hookfree_body(t, k):
    """The tracer must not run user-defined code of the program's objects (C03, second sentence)."""
    from harness.frames import REPR_MSG, representation_ok

    if not representation_ok():
        return _V.INCONCLUSIVE(REPR_MSG)
    kname, mk = TW.KINDS[t.take(len(TW.KINDS))]
    pos = POSITIONS[t.take(len(POSITIONS))]
    obj = mk()
    if pos in ("arg-dict-key", "arg-in-set"):
        ASSUME(kname in TW.HASHABLE)
    if pos in ("global-named-like-function", "caller-local"):
        ASSUME(kname in TW.CALLABLE)
    if pos in ("receiver", "global-bound-method"):
        ASSUME(kname in TW.HAS_METH)
    wrapped = {
        "arg": lambda: obj, "arg-in-list": lambda: [obj], "arg-in-tuple": lambda: (obj, 1), "arg-dict-value-strkey": lambda: {"a": obj},
        "arg-dict-value-intkey": lambda: {1: obj}, "arg-dict-key": lambda: {obj: 1}, "arg-in-set": lambda: {obj},
        "arg-defaultdict-value": lambda: TW.defaultdict(int, a=obj), "arg-in-list-in-list": lambda: [[obj]],
        "arg-in-tuple-in-tuple": lambda: ((obj,),), "arg-in-dict-in-dict": lambda: {"a": {"a": obj}}, "return": lambda: obj, "return-in-list": lambda: [obj], "yield": lambda: obj,
    }
    value = wrapped[pos]() if pos in wrapped else obj
    # the logger may fail (fault containment must not be paid for with user code: e.g. formatting the failed
    # trace for the log calls repr() on a bound method's __self__)
    log_fails = t.take(2) == 1
    logger = FaultyLogger(True, ValueError) if log_fails else ListLogger()
    tracer = CallTracer(logger, k, None, None)
    import logging

    class _Formatting(logging.Handler):
        def emit(self, record):
            self.format(record)  # what any real handler does: %-format the message with its arguments

    mt_log = logging.getLogger("monkeytype")
    saved_level, handler = mt_log.level, _Formatting()
    mt_log.setLevel(logging.DEBUG)
    mt_log.addHandler(handler)
    installed = []
    if _V.UNDER_ENGINE:
        # the engine's isinstance never consults __class__; CPython's does (contract model, validated natively every run)
        for mod in (MT, T):
            if "isinstance" not in mod.__dict__:
                mod.__dict__["isinstance"] = TW.cpython_isinstance
                installed.append(mod)
    del TW.JOURNAL[:]
    try:
        if pos.startswith("arg") or pos in ("return", "return-in-list", "yield"):
            fr = FakeFrame(CodeView(F.gen_func.__code__), {"n": value if pos.startswith("arg") else 1}, _Globals())
            from harness.frames import seed_function

            seed_function(tracer, fr.f_code, F.gen_func)
            tracer(fr, "call", None)
            if pos == "yield":
                fr.f_lasti = AT_YIELD
                tracer(fr, "return", value)
                tracer(fr, "call", None)
            fr.f_lasti = AT_RETURN
            tracer(fr, "return", value if pos.startswith("return") else None)
            if (logger.logged if log_fails else len(logger.traces)) != 1:
                return check(False, lambda: f"{kname} at {pos}: no trace logged (type collection failed?)")
        elif pos == "global-bound-method":
            # the module exports a bound method of a singleton under the function's name (`register = _registry.register`)
            code = type(obj).meth.__code__
            g = _Globals()
            g["meth"] = types.MethodType(type(obj).__dict__["meth"], obj)
            fr = FakeFrame(code, {"self": obj, "x": 1}, g, None, _ret_offset(code))
            tracer(fr, "call", None)
            tracer(fr, "return", 1)
        elif pos == "receiver":
            code = type(obj).meth.__code__
            fr = FakeFrame(code, {"self": obj, "x": 1}, _Globals())
            tracer(fr, "call", None)
            from harness.frames import in_flight

            if not in_flight(tracer, fr):
                return check(False, lambda: f"{kname} as receiver: method not resolved")
        else:
            # function lookup that has to search: the code object is not reachable by name
            code = CodeView(F.gen_func.__code__)
            g = _Globals()
            back = None
            local = {"n": 1}
            if pos == "global-unrelated":
                g["something"] = obj
            elif pos == "global-named-like-function":
                g["gen_func"] = obj
            elif pos == "caller-local":
                back = FakeFrame(CodeView(F.mod_func.__code__), {"helper": obj}, _Globals())
            else:
                local = {"n": obj}
            fr = FakeFrame(code, local, g, back)
            tracer(fr, "call", None)
    finally:
        for mod in installed:
            del mod.__dict__["isinstance"]
        mt_log.removeHandler(handler)
        mt_log.setLevel(saved_level)
    journal = list(TW.JOURNAL)
    del TW.JOURNAL[:]
    return check(not journal, lambda: f"the tracer ran user-defined code of a {kname} object at position '{pos}': {journal[:4]}"
                                      f"{' ... (%d hook calls)' % len(journal) if len(journal) > 4 else ''}")


tape_harness("hookfree", [("t", 3)], {"k": "int"}, hookfree_body, globals())


def validate_models():
    problems = TW.validate_isinstance_model()
    out = {"isinstance_contract_cases": len(TW.KINDS) * 7 + 70}
    if problems:
        out["inconclusive"] = "isinstance contract model disagrees with the interpreter: " + "; ".join(problems[:3])
    return out


def describe(name, args):
    return {k: v for k, v in args.items()}
