"""Type grammar: a tape of (symbolic) ints decoded into real `typing` objects by branching."""
from __future__ import annotations

from typing import (Any, Callable, DefaultDict, Dict, Generator, Iterator, List, Set, Tuple, Type, Union)

from engine.verdicts import Tape
from vfix import classes as K

from monkeytype.typing import make_typed_dict  # constructor of the anonymous TypedDict shape (data, not logic)

NoneType = type(None)

ATOMS = {
    "int": int, "str": str, "bool": bool, "NoneType": NoneType, "float": float, "Any": Any,
    "A": K.A, "B": K.B, "C": K.C, "D": K.D, "E": K.E, "Inner": K.Outer.Inner,
    "X1": K.X1, "Y1": K.Y1, "Color": K.Color, "Concrete": K.Concrete,
}
GENERICS = ("List", "Set", "Dict", "DefaultDict", "Tuple", "TupleVar", "TupleEmpty", "Type", "Callable", "IteratorAny",
            "Generator", "Union", "TD")
TD_KEYS = ("a", "b")


class TGrammar:
    def __init__(self, atoms, generics, depth=2, max_union=4, max_tuple=2, td_keys=TD_KEYS, elem_atoms=None):
        self.atoms = tuple(atoms)
        self.generics = tuple(generics)
        self.depth = depth
        self.max_union = max_union
        self.max_tuple = max_tuple
        self.td_keys = tuple(td_keys)
        self.elem_atoms = tuple(elem_atoms) if elem_atoms is not None else self.atoms

    def describe(self):
        return {"atoms": self.atoms, "elem_atoms": self.elem_atoms, "generics": self.generics, "depth": self.depth,
                "max_union_members": self.max_union, "max_tuple_len": self.max_tuple, "typed_dict_keys": self.td_keys}


TG_QUICK = TGrammar(atoms=("int", "str", "NoneType", "Any", "A", "B", "C", "D"),
                    generics=("List", "Dict", "Tuple", "TupleVar", "TupleEmpty", "Type", "Callable", "IteratorAny", "Generator", "Union", "TD",
                              "Set", "DefaultDict"),
                    depth=2, max_union=3, elem_atoms=("int", "NoneType", "Any", "B"))
TG_UNION = TGrammar(atoms=("int", "NoneType", "A", "B", "C", "D", "E", "X1", "Y1"),
                    generics=("Union", "List", "TupleEmpty", "Tuple", "Dict"), depth=2, max_union=7, elem_atoms=("int", "Any", "str"))
TG_FULL = TGrammar(atoms=tuple(ATOMS), generics=GENERICS, depth=2, max_union=4, elem_atoms=("int", "str", "NoneType", "Any", "A", "B", "D"))
TG_DEEP = TGrammar(atoms=("int", "NoneType", "Any", "B"), generics=("List", "Dict", "Tuple", "Union", "TD", "Generator", "TupleEmpty"),
                   depth=3, max_union=3, elem_atoms=("int", "Any", "B"), td_keys=("a",))


def build_type(t: Tape, g: TGrammar, depth=None, in_union=False, top=True):
    if depth is None:
        depth = g.depth
    atoms = g.atoms if top else g.elem_atoms
    gens = [x for x in g.generics if not (in_union and x == "Union")] if depth > 0 else []
    c = t.take(len(atoms) + len(gens))
    if c < len(atoms):
        return ATOMS[atoms[c]]
    kind = gens[c - len(atoms)]

    def sub(in_u=False):
        return build_type(t, g, depth - 1, in_u, False)

    def elem():
        # a bare `Any` is never a tuple element or a Generator argument of a type MonkeyType can infer or produce (Any stands
        # for the element type of an EMPTY list/set/dict, or for a collapsed union, which never sits directly in those
        # slots): Tuple[Any, Any] next to Tuple[B, B] is not in the property's domain
        x = sub()
        return int if x is Any else x

    if kind == "List":
        return List[sub()]
    if kind == "Set":
        return Set[sub()]
    if kind == "Dict":
        return Dict[sub(), sub()]
    if kind == "DefaultDict":
        return DefaultDict[sub(), sub()]
    if kind == "Tuple":
        n = 1 + t.take(g.max_tuple)
        return Tuple[tuple(elem() for _ in range(n))]
    if kind == "TupleVar":
        return Tuple[elem(), ...]
    if kind == "TupleEmpty":
        return Tuple[()]
    if kind == "Type":
        return Type[(K.A, K.B, K.D)[t.take(3)]]
    if kind == "Callable":
        return Callable
    if kind == "IteratorAny":
        return Iterator[Any]
    if kind == "Generator":
        y = elem()
        tail = t.take(3)  # (None, None) | (None, R) | (S, R)
        if tail == 0:
            return Generator[y, None, None]
        if tail == 1:
            return Generator[y, None, elem()]
        return Generator[y, elem(), elem()]
    if kind == "Union":
        n = 2 + t.take(g.max_union - 1)
        return Union[tuple(sub(True) for _ in range(n))]
    if kind == "TD":
        req, opt = {}, {}
        for key in g.td_keys:
            where = t.take(3)  # absent / required / optional
            if where == 1:
                req[key] = sub()
            elif where == 2:
                opt[key] = sub()
        if not req and not opt:
            req["a"] = int
        return make_typed_dict(required_fields=req, optional_fields=opt)
    raise AssertionError(kind)


# ---------------------------------------------------------------- targeted union grammar
def _member_alphabet():
    return (
        ("int", int), ("NoneType", NoneType), ("A", K.A), ("B", K.B), ("D", K.D),
        ("List[Any]", List[Any]), ("List[int]", List[int]),
        ("Dict[Any,Any]", Dict[Any, Any]), ("Dict[str,int]", Dict[str, int]),
        ("Tuple[()]", Tuple[()]), ("Tuple[int,int]", Tuple[int, int]),
        ("Dict[str,A]", Dict[str, K.A]), ("C", K.C), ("Tuple[int]", Tuple[int]),
        ("Set[Any]", Set[Any]), ("Iterator[Any]", Iterator[Any]), ("Dict[int,int]", Dict[int, int]), ("X1", K.X1), ("Y1", K.Y1),
        ("E", K.E), ("str", str), ("Type[A]", Type[K.A]), ("Callable", Callable), ("Set[int]", Set[int]),
    )


MEMBERS = _member_alphabet()
# second alphabet: near-miss container kinds (Dict / DefaultDict, tuples of different lengths), empty containers of
# several kinds, and a member that itself contains a union (re-entrant rewrite_Union); used with the member-order bit
MEMBERS2 = (
    ("Tuple[int]", Tuple[int]), ("Tuple[int,int]", Tuple[int, int]), ("DefaultDict[str,str]", DefaultDict[str, str]),
    ("Dict[str,int]", Dict[str, int]), ("Set[Any]", Set[Any]), ("List[Union[Set[int],str]]", List[Union[Set[int], str]]),
    ("NoneType", NoneType), ("B", K.B), ("Dict[str,Union[List[int],A]]", Dict[str, Union[List[int], K.A]]), ("List[Any]", List[Any]),
    ("DefaultDict[Any,Any]", DefaultDict[Any, Any]), ("Tuple[int,int,int]", Tuple[int, int, int]), ("Set[int]", Set[int]),
)
# third alphabet, for ORDERED PAIRS of rewriters: containers whose element type is itself a union with more members than
# small limits (one rewriter may turn it into C[Any], which the next one reads as an empty container), same-kind
# containers next to them, and tuples whose element type is a subscripted generic
MEMBERS3 = (
    ("Set[Union[int,str,float]]", Set[Union[int, str, float]]), ("Set[int]", Set[int]), ("List[Union[int,str,NoneType]]", List[Union[int, str, NoneType]]),
    ("List[int]", List[int]), ("Tuple[List[int]]", Tuple[List[int]]), ("Tuple[int]", Tuple[int]), ("Tuple[str]", Tuple[str]), ("NoneType", NoneType),
)
# fourth alphabet: anonymous TypedDicts as union members (a generator that yields differently shaped dicts has such a yield
# type: the tracer builds Union[yield types] without merging them), next to plain classes and a Dict
MEMBERS4 = (
    ("TD(a:int)", make_typed_dict(required_fields={"a": int})), ("TD(b:str)", make_typed_dict(required_fields={"b": str})),
    ("TD(a?:int)", make_typed_dict(optional_fields={"a": int})), ("A", K.A), ("B", K.B), ("NoneType", NoneType), ("Dict[str,int]", Dict[str, int]),
)
ALPHABETS = {"MEMBERS": MEMBERS, "MEMBERS2": MEMBERS2, "MEMBERS3": MEMBERS3, "MEMBERS4": MEMBERS4}
WRAPPERS = ("bare", "List", "DictValue", "TDField", "GeneratorYield", "Optional", "TupleElem", "DefaultDictValue")


def build_union_type(t: Tape, n_members: int, wrappers=WRAPPERS, alphabet="MEMBERS", ordered=False, min_size=1):
    """A union whose member set is an arbitrary subset of the first n_members alphabet entries
    (one include/exclude decision each), placed bare or inside a container position; with `ordered`
    one more decision reverses the member order (rewriters walk members first to last)."""
    w = wrappers[t.take(len(wrappers))]
    chosen = [typ for _name, typ in ALPHABETS[alphabet][:n_members] if t.take(2) == 1]
    if len(chosen) < min_size:
        chosen = [int]
    if ordered and t.take(2) == 1:
        chosen.reverse()
    u = Union[tuple(chosen)]
    if w == "bare":
        return u
    if w == "List":
        return List[u]
    if w == "DictValue":
        return Dict[str, u]
    if w == "DefaultDictValue":
        return DefaultDict[str, u]
    if w == "TDField":
        return make_typed_dict(required_fields={"a": u}, optional_fields={"b": int})
    if w == "GeneratorYield":
        return Generator[u, None, None]
    if w == "Optional":
        return Union[u, None]
    if w == "TupleElem":
        return Tuple[int, u]
    raise AssertionError(w)
