"""Known findings: a harness assumes the input class of a LISTED finding away (SKIP), so that a
different violation of the same property is still reported.  The list is /verif/known_findings.json
and is never written at run time."""
import json
import os

_PATH = os.path.join(os.path.dirname(os.path.dirname(os.path.abspath(__file__))), "known_findings.json")
try:
    _LISTED = {f["finding_id"] for f in json.load(open(_PATH)).get("findings", [])}
except FileNotFoundError:
    _LISTED = set()


def listed(finding_id: str) -> bool:
    return finding_id in _LISTED
