"""C12 -- stubs are valid Python and mirror the traced functions' real signatures.

 * sigrender -- a signature decoded from a tape (parameter kinds, defaults incl. None, long and
   short names, annotations) is rendered by the real render_signature with `max_line_len` an
   unconstrained solver integer (every wrapping width) and a prefix; the text is parsed back with
   `ast` and compared with the signature.
 * modstub -- an arbitrary subset (symbolic bits) of the fixture module's functions is traced; the
   real build_module_stubs_from_traces(...).render() output must parse, contain exactly the traced
   functions once each in their classes with the right decorator / async, mirror
   inspect.signature, and never annotate the receiver.
"""
from __future__ import annotations

import ast
import inspect
from typing import List, Optional

from harness.common import ASSUME, FAIL, PASS, check, tape_harness  # noqa: F401
from harness.stubeval import StubError, parse_stub
from vfix import classes as K
from vfix import funcs as F

from monkeytype.stubs import (ExistingAnnotationStrategy, FunctionKind, FunctionStub, build_module_stubs_from_traces, render_signature)
from monkeytype.tracing import CallTrace
from monkeytype.typing import NoOpRewriter

FUNCTIONS = [
    "monkeytype.stubs.render_parameter / render_signature",
    "monkeytype.stubs.FunctionStub.render",
    "monkeytype.stubs.FunctionKind.from_callable",
    "monkeytype.stubs.FunctionDefinition.from_callable / from_callable_and_traced_types / has_self",
    "monkeytype.stubs.update_signature_args / update_signature_return",
    "monkeytype.stubs.build_module_stubs / build_module_stubs_from_traces",
    "monkeytype.stubs.ClassStub.render / ModuleStub.render",
    "monkeytype.util.get_name_in_module / get_func_fqname (kind and signature of generated functions, per generation)",
]
P = inspect.Parameter
LONG = "a_parameter_name_long_enough_to_force_wrapping_of_the_signature_"
ANNOS = (P.empty, int, Optional[int], List[K.A])
ANNOS_Q = (P.empty, List[K.A])


def build_signature(t, max_each=2, annos=ANNOS):
    """A valid inspect.Signature by construction: counts per kind, where defaults start."""
    n_po, n_pk = t.take(max_each + 1), t.take(max_each + 1)
    has_va = t.take(2) == 1
    n_ko = t.take(max_each + 1)
    has_kw = t.take(2) == 1
    n_pos = n_po + n_pk
    first_default = t.take(n_pos + 1)  # positional parameters from this index on have defaults
    long_names = t.take(2) == 1
    params = []
    idx = 0

    def name(i):
        return (LONG if long_names else "p") + str(i)

    for i in range(n_pos):
        kind = P.POSITIONAL_ONLY if i < n_po else P.POSITIONAL_OR_KEYWORD
        default = P.empty
        if i >= first_default:
            default = (None, 1)[t.take(2)]
        params.append(P(name(idx), kind, default=default, annotation=annos[t.take(len(annos))] if i == 0 else P.empty))
        idx += 1
    if has_va:
        params.append(P(name(idx), P.VAR_POSITIONAL, annotation=annos[t.take(min(2, len(annos)))]))
        idx += 1
    for i in range(n_ko):
        d = t.take(3)
        params.append(P(name(idx), P.KEYWORD_ONLY, default=(P.empty, None, 1)[d], annotation=annos[t.take(len(annos))] if i == 0 else P.empty))
        idx += 1
    if has_kw:
        params.append(P(name(idx), P.VAR_KEYWORD))
        idx += 1
    ret = annos[t.take(len(annos))]
    return inspect.Signature(params, return_annotation=ret if ret is not P.empty else inspect.Signature.empty)


def compare_args(node: ast.arguments, sig: inspect.Signature):
    """ast.arguments of the rendered text vs the real signature: names, kinds, order, defaults."""
    want = {k: [] for k in ("po", "pk", "ko")}
    va = kw = None
    defaults = set()
    for p in sig.parameters.values():
        if p.kind == P.POSITIONAL_ONLY:
            want["po"].append(p.name)
        elif p.kind == P.POSITIONAL_OR_KEYWORD:
            want["pk"].append(p.name)
        elif p.kind == P.KEYWORD_ONLY:
            want["ko"].append(p.name)
        elif p.kind == P.VAR_POSITIONAL:
            va = p.name
        else:
            kw = p.name
        if p.default is not P.empty:
            defaults.add(p.name)
    got_po = [a.arg for a in node.posonlyargs]
    got_pk = [a.arg for a in node.args]
    got_ko = [a.arg for a in node.kwonlyargs]
    if got_po != want["po"]:
        return f"positional-only parameters {got_po} != {want['po']}"
    if got_pk != want["pk"]:
        return f"positional-or-keyword parameters {got_pk} != {want['pk']}"
    if got_ko != want["ko"]:
        return f"keyword-only parameters {got_ko} != {want['ko']}"
    if (node.vararg.arg if node.vararg else None) != va:
        return f"*args {(node.vararg.arg if node.vararg else None)!r} != {va!r}"
    if (node.kwarg.arg if node.kwarg else None) != kw:
        return f"**kwargs {(node.kwarg.arg if node.kwarg else None)!r} != {kw!r}"
    pos = node.posonlyargs + node.args
    got_def = {a.arg for a in pos[len(pos) - len(node.defaults):]} if node.defaults else set()
    got_def |= {a.arg for a, d in zip(node.kwonlyargs, node.kw_defaults) if d is not None}
    if got_def != defaults:
        return f"parameters with defaults {sorted(got_def)} != {sorted(defaults)}"
    return None


def sigrender_body(t, width, max_each=2, annos=ANNOS):
    sig = build_signature(t, max_each, annos)
    mode = t.take(3)  # 0: max_line_len None, 1: symbolic width with no prefix, 2: symbolic width, 4-space prefix
    prefix = "    " if mode == 2 else ""
    text = render_signature(sig, None if mode == 0 else width, prefix)
    src = prefix + "def f" + text + ": ..."
    if prefix:
        src = "class C:\n" + src
    try:
        tree = ast.parse(src)
    except SyntaxError as e:
        return check(False, lambda: f"rendered signature is not valid Python ({e.msg}) at width {_i(width)}: {src!r}")
    fn = tree.body[0].body[0] if prefix else tree.body[0]
    r = compare_args(fn.args, sig)
    if r:
        return check(False, lambda: f"{r} at width {_i(width)}: {src!r}")
    for p in sig.parameters.values():
        node = [a for a in fn.args.posonlyargs + fn.args.args + fn.args.kwonlyargs + [fn.args.vararg, fn.args.kwarg] if a is not None and a.arg == p.name][0]
        if (node.annotation is None) != (p.annotation is P.empty):
            return check(False, lambda: f"annotation presence of {p.name} changed: {src!r}")
    if (fn.returns is None) != (sig.return_annotation is inspect.Signature.empty):
        return check(False, lambda: f"return annotation presence changed: {src!r}")
    if mode != 0:
        single_line = "\n" not in text
        # wrapped exactly when the one-line form does not fit
        one = render_signature(sig, None, prefix)
        if single_line != (len(one) <= width):
            return check(False, lambda: f"width {_i(width)}: one-line form has {len(one)} chars but wrapped={not single_line}")
        if not single_line and mode == 2 and not all(ln.startswith(prefix) for ln in text.split("\n")[1:]):
            return check(False, "continuation lines lost the prefix")
    return check(True)


def _i(x):
    try:
        return int(x)
    except Exception:  # noqa: BLE001
        return x


tape_harness("sigrender_quick", [("t", 22)], {"width": "int"}, lambda t, width: sigrender_body(t, width, 1, ANNOS_Q), globals())
tape_harness("sigrender_thorough", [("t", 30)], {"width": "int"}, lambda t, width: sigrender_body(t, width, 2), globals())


# ---------------------------------------------------------------- module stub over traced subsets
MOD_FUNCS = (
    F.mod_func, F.all_kinds, F.Klass.method, F.Klass.__dict__["cmethod"].__func__, F.Klass.__dict__["smethod"].__func__,
    F.Klass.__dict__["prop"].fget, F.coro_func, F.gen_func, F.Klass.acoro, F.Base.inherited, F.pos_only, F.kw_only, F.defaults, F.var_args,
    F.Klass.gen_method, F.no_args, F.Klass.Nested.nested_method, F.Klass.Nested.Deeper.deep_method,
)
KIND_DECORATOR = {FunctionKind.CLASS: ["classmethod"], FunctionKind.STATIC: ["staticmethod"], FunctionKind.PROPERTY: ["property"]}


def _true_kind(func):
    """Ground truth from the class body itself."""
    parts = func.__qualname__.split(".")
    if len(parts) == 1:
        return "module", []
    owner = F
    for p in parts[:-1]:
        owner = getattr(owner, p)
    raw = owner.__dict__[parts[-1]]
    if isinstance(raw, classmethod):
        return "class", ["classmethod"]
    if isinstance(raw, staticmethod):
        return "static", ["staticmethod"]
    if isinstance(raw, property):
        return "property", ["property"]
    return "instance", []


def modstub_check(funcs, text):
    try:
        info = parse_stub(text, F.__name__)
    except StubError as e:
        return f"{e}"
    want = {f.__qualname__ for f in funcs}
    got = set(info.functions)
    if got != want:
        return f"functions in the stub {sorted(got)} != traced functions {sorted(want)}"
    for f in funcs:
        fis = info.functions[f.__qualname__]
        if len(fis) != 1:
            return f"{f.__qualname__} appears {len(fis)} times"
        fi = fis[0]
        kind, decos = _true_kind(f)
        if fi.decorators != decos:
            return f"{f.__qualname__}: decorators {fi.decorators}, the function is a {kind}"
        if fi.is_async != inspect.iscoroutinefunction(f):
            return f"{f.__qualname__}: async={fi.is_async}"
        r = compare_args(fi.node.args, inspect.signature(f))
        if r:
            return f"{f.__qualname__}: {r}"
        if kind in ("instance", "class", "property"):
            recv = fi.all_params()[0]
            if recv in fi.annotations:
                return f"{f.__qualname__}: the receiver {recv} is annotated"
        names = f.__code__.co_varnames[: f.__code__.co_argcount + f.__code__.co_kwonlyargcount]
        for n in names:
            is_recv = kind in ("instance", "class", "property") and n == names[0]
            if not is_recv and n not in fi.annotations:
                return f"{f.__qualname__}: traced parameter {n} has no annotation"
    return None


def modstub_body(t, funcs=MOD_FUNCS, nbits=None):
    chosen = [f for f in funcs if t.take(2) == 1]
    ASSUME(len(chosen) > 0)
    traces = []
    for f in chosen:
        names = f.__code__.co_varnames[: f.__code__.co_argcount + f.__code__.co_kwonlyargcount]
        traces.append(CallTrace(f, {n: int for n in names}, int, None))
    stubs = build_module_stubs_from_traces(traces, 0, ExistingAnnotationStrategy.IGNORE, NoOpRewriter())
    if set(stubs) != {F.__name__}:
        return check(False, lambda: f"stubs for modules {sorted(stubs)}")
    text = stubs[F.__name__].render()
    r = modstub_check(chosen, text)
    return check(r is None, lambda: f"{r}\n--- stub ---\n{text}")


QUICK_FUNCS = MOD_FUNCS[:10] + MOD_FUNCS[16:18]
tape_harness("modstub_quick", [("t", 12)], {}, lambda t: modstub_body(t, QUICK_FUNCS), globals())
tape_harness("modstub_thorough", [("t", 18)], {}, lambda t: modstub_body(t, MOD_FUNCS), globals())


# ---------------------------------------------------------------- generated modules (real functions made from the tape)
GEN_MODULE = "vfix_gen"
GEN_KINDS = ("module", "instance", "class", "static", "property", "async-method", "generator", "nested-instance", "nested-static", "async-module",
             "async-generator")  # async def with a yield: NOT a coroutine function, its stub is a plain def
OTHER = ("none", "module function", "method of a class nested two levels deep", "instance method of the same class")


def _def_source(name, kind, sig, indent):
    """Source of one function whose parameter list is `sig` (plus the receiver its kind needs)."""
    params = str(sig)[1:-1] if kind != "property" else ""
    recv = {"instance": "self", "class": "cls", "property": "self", "async-method": "self", "nested-instance": "self"}.get(kind)
    if recv:
        params = recv + (", " + params if params else "")
        if params.startswith(recv + ", /"):  # a bare '/' cannot follow the receiver alone: make the receiver positional-only too
            pass
    deco = {"class": "@classmethod\n", "static": "@staticmethod\n", "nested-static": "@staticmethod\n", "property": "@property\n"}.get(kind, "")
    head = ("async def" if kind.startswith("async") else "def") + f" {name}({params}):"
    body = "yield 0" if kind in ("generator", "async-generator") else "return 0"
    pad = " " * indent
    return "".join(pad + ln + "\n" for ln in (deco + head).split("\n")) + pad + "    " + body + "\n"


def build_gen_module(t, others=None):
    """A fresh module `vfix_gen` (replacing the previous generation under the same name) with one function of a
    tape-chosen kind and signature and optionally a second function elsewhere in the module."""
    import sys
    import types

    kind = GEN_KINDS[t.take(len(GEN_KINDS))]
    others = others or OTHER
    other = others[t.take(len(others))]
    sig = build_signature(t, 1, (P.empty,)) if kind != "property" else inspect.Signature([])
    sig = sig.replace(return_annotation=inspect.Signature.empty)
    src = ""
    main_q = None
    if kind in ("module", "generator", "async-module", "async-generator"):
        src += _def_source("target", kind, sig, 0)
        main_q = "target"
    if other == "module function":
        src += "def other(a):\n    return a\n"
    cls_body = ""
    if kind in ("instance", "class", "static", "property", "async-method"):
        cls_body += _def_source("target", kind, sig, 4)
        main_q = "Host.target"
    if other == "instance method of the same class":
        cls_body += "    def other(self, a):\n        return a\n"
    nested = ""
    if kind in ("nested-instance", "nested-static"):
        nested += "    class Inner:\n" + _def_source("target", kind, sig, 8)
        main_q = "Host.Inner.target"
    if other == "method of a class nested two levels deep":
        nested += "    class Mid:\n        class Deep:\n            def other(self, a):\n                return a\n"
    if cls_body or nested:
        src += "class Host:\n" + cls_body + nested
    mod = types.ModuleType(GEN_MODULE)
    exec(compile(src, "<" + GEN_MODULE + ">", "exec"), mod.__dict__)
    sys.modules[GEN_MODULE] = mod

    def resolve(q):
        o = mod
        owner = None
        for part in q.split("."):
            owner = o
            o = (o.__dict__ if isinstance(o, type) else vars(o))[part]
        if isinstance(o, (classmethod, staticmethod)):
            return o.__func__, owner, o
        if isinstance(o, property):
            return o.fget, owner, o
        return o, owner, o

    funcs = [(main_q,) + resolve(main_q)]
    other_q = {"module function": "other", "instance method of the same class": "Host.other", "method of a class nested two levels deep": "Host.Mid.Deep.other"}.get(other)
    if other_q:
        funcs.append((other_q,) + resolve(other_q))
    return mod, src, funcs


OTHER_Q = (OTHER[0], OTHER[2])


def genmod_body(t, others=None):
    mod, src, funcs = build_gen_module(t, others)
    both = len(funcs) == 2 and t.take(2) == 1
    traced = funcs if both else funcs[:1]
    if both and t.take(2) == 1:
        traced = traced[::-1]  # the order in which the traces arrive (e.g. a nested class's method before its outer class's)
    traces = []
    for _q, f, _owner, _raw in traced:
        names = f.__code__.co_varnames[: f.__code__.co_argcount + f.__code__.co_kwonlyargcount]
        traces.append(CallTrace(f, {n: int for n in names}, int, None))
    stubs = build_module_stubs_from_traces(traces, 0, ExistingAnnotationStrategy.IGNORE, NoOpRewriter())

    def fail(msg):
        return check(False, lambda: f"{msg}\n--- generated module ---\n{src}--- stub ---\n{text}")

    text = stubs[GEN_MODULE].render() if GEN_MODULE in stubs else None
    if set(stubs) != {GEN_MODULE}:
        return fail(f"stubs for modules {sorted(stubs)}")
    try:
        info = parse_stub(text, GEN_MODULE)
    except StubError as e:
        return fail(str(e))
    want = {q for q, *_ in traced}
    if set(info.functions) != want:
        return fail(f"functions in the stub {sorted(info.functions)} != traced functions {sorted(want)}")
    for q, f, _owner, raw in traced:
        fis = info.functions[q]
        if len(fis) != 1:
            return fail(f"{q} appears {len(fis)} times")
        fi = fis[0]
        decos = ["classmethod"] if isinstance(raw, classmethod) else ["staticmethod"] if isinstance(raw, staticmethod) else ["property"] if isinstance(raw, property) else []
        if fi.decorators != decos:
            return fail(f"{q}: decorators {fi.decorators}, expected {decos}")
        if fi.is_async != inspect.iscoroutinefunction(f):
            return fail(f"{q}: async={fi.is_async}")
        r = compare_args(fi.node.args, inspect.signature(f))
        if r:
            return fail(f"{q}: {r}")
        has_recv = "." in q and not isinstance(raw, staticmethod)
        names = f.__code__.co_varnames[: f.__code__.co_argcount + f.__code__.co_kwonlyargcount]
        for i, n in enumerate(names):
            if has_recv and i == 0:
                if n in fi.annotations:
                    return fail(f"{q}: the receiver {n} is annotated")
            elif n not in fi.annotations:
                return fail(f"{q}: traced parameter {n} has no annotation")
    return check(True)


tape_harness("genmod", [("t", 22)], {}, genmod_body, globals())
tape_harness("genmod_quick", [("t", 22)], {}, lambda t: genmod_body(t, OTHER_Q), globals())


def shards(name, prefix=4):
    from engine.verdicts import enumerate_prefixes

    if name.startswith("genmod"):
        oth = OTHER_Q if name.endswith("quick") else None
        return [{f"t{j}": v for j, v in enumerate(p)} for p in enumerate_prefixes(lambda t: build_gen_module(t, oth), prefix + 2)]
    if name.startswith("sigrender"):
        me = 1 if name.endswith("quick") else 2
        an = ANNOS_Q if me == 1 else ANNOS
        return [{f"t{j}": v for j, v in enumerate(p)} for p in enumerate_prefixes(lambda t: build_signature(t, me, an), prefix + 2)]
    nb = 12 if name.endswith("quick") else 18
    k = min(prefix + 2, nb)
    return [{f"t{j}": (m >> j) & 1 for j in range(k)} for m in range(2 ** k)]


def describe(name, args):
    from engine.verdicts import Tape

    ks = sorted((k for k in args if k[0] == "t" and k[1:].isdigit()), key=lambda s: int(s[1:]))
    t = Tape([args[k] for k in ks])
    if name.startswith("genmod"):
        _mod, src, funcs = build_gen_module(t, OTHER_Q if name.endswith("quick") else None)
        return {"generated_module": src, "functions": [q for q, *_ in funcs]}
    if name.startswith("sigrender"):
        sig = build_signature(t, 1 if name.endswith("quick") else 2, ANNOS_Q if name.endswith("quick") else ANNOS)
        mode = t.take(3)
        w = args.get("width")
        return {"signature": str(sig), "max_line_len": None if mode == 0 else w, "prefix": "    " if mode == 2 else "",
                "rendered": render_signature(sig, None if mode == 0 else w, "    " if mode == 2 else "")}
    funcs = QUICK_FUNCS if name.endswith("quick") else MOD_FUNCS
    return {"traced": [f.__qualname__ for f in funcs if t.take(2) == 1]}
