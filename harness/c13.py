"""C13 -- existing source annotations are kept, omitted or overridden exactly as requested.

Symbolic: the strategy, the fixture function (class / generic / Optional / string / NewType / Any
annotations, None defaults, methods, partially annotated), which parameters are traced (bits),
the traced types, the trace shape for the return position (return only, yield only, yield+return,
yield+None return, nothing = exception only).
Real code: get_updated_definition -> update_signature_args / update_signature_return ->
render_parameter (Optional wrapping) -> build_module_stubs(...).render().
"""
from __future__ import annotations

import inspect
import typing
from typing import Any, Generator, Iterator, List, Optional

from harness.common import ASSUME, FAIL, PASS, check, tape_harness  # noqa: F401
from harness import oracles as O
from harness.stubeval import StubError, parse_stub
from vfix import classes as K
from vfix import funcs as F

from monkeytype.stubs import ExistingAnnotationStrategy as S
from monkeytype.stubs import build_module_stubs, get_updated_definition
from monkeytype.tracing import CallTrace
from monkeytype.typing import DEFAULT_REWRITER, NoOpRewriter

FUNCTIONS = [
    "monkeytype.stubs.update_signature_args",
    "monkeytype.stubs.update_signature_return",
    "monkeytype.stubs.get_updated_definition / shrink_traced_types",
    "monkeytype.stubs.FunctionDefinition.from_callable_and_traced_types / has_self",
    "monkeytype.stubs.render_parameter (Optional wrapping for None defaults) / render_signature",
    "monkeytype.stubs.get_imports_for_signature / build_module_stubs / ModuleStub.render",
]
FUNCS = (F.ann_class, F.ann_generic, F.ann_optional, F.ann_string, F.ann_newtype, F.ann_none_default, F.ann_iter, F.ann_any,
         F.unannotated, F.defaults, F.Klass.method, F.kw_only, F.Deco.annotated_self, F.Deco.__dict__["annotated_cls"].__func__,
         F.ann_union_none_default, F.ann_variadic, F.ann_string_none_default, F.ann_gen_source, F.ann_newtype_none_default)
STRATEGIES = (S.REPLICATE, S.OMIT, S.IGNORE)
TRACED_TYPES = (int, typing.Union[int, str], List[str], K.B, Optional[K.A], type(None))
SHAPES = ("return", "yield", "yield+return", "yield+None", "nothing")


def _source_annotation(func, raw):
    """The source annotation as a type object (string annotations resolved in the module)."""
    if isinstance(raw, str):
        return eval(raw, vars(F))  # noqa: S307 - fixture strings only
    return raw


def annot_body(t, funcs=FUNCS, types=TRACED_TYPES):
    strategy = STRATEGIES[t.take(3)]
    func = funcs[t.take(len(funcs))]
    sig = inspect.signature(func)
    names = list(sig.parameters)
    has_self = "." in func.__qualname__
    traced = {}
    for i, n in enumerate(names):
        if sig.parameters[n].kind in (inspect.Parameter.VAR_POSITIONAL, inspect.Parameter.VAR_KEYWORD):
            continue
        if t.take(2) == 1:
            traced[n] = types[t.take(len(types))] if i < 2 else int
    shape = SHAPES[t.take(len(SHAPES))]
    ret = yld = None
    if shape in ("return", "yield+return"):
        ret = types[t.take(len(types))]
        if ret is type(None) and shape == "yield+return":
            ret = int
    if shape == "yield+None":
        ret = type(None)
    if shape.startswith("yield"):
        yld = (int, K.B)[t.take(2)]
    trace = CallTrace(func, traced, ret, yld)
    # the configured rewriter applies to TRACED types only (none of the traced types here is changed by the default
    # chain); a source annotation must come through untouched whatever the rewriter
    rewriter = NoOpRewriter()
    if sig.return_annotation is not inspect.Signature.empty and t.take(2) == 1:
        rewriter = DEFAULT_REWRITER
    defn = get_updated_definition(func, [trace], 0, rewriter, strategy)
    text = build_module_stubs([defn])[func.__module__].render()
    try:
        info = parse_stub(text, func.__module__, lenient_names=True)
    except StubError as e:
        return check(False, lambda: f"{e}\n--- stub ---\n{text}")
    fis = info.functions.get(func.__qualname__)
    if not fis or len(fis) != 1:
        return check(False, lambda: f"{func.__qualname__} missing from its stub:\n{text}")
    fi = fis[0]

    def fail(msg):
        return check(False, lambda: f"{strategy.name} {func.__qualname__} traced={sorted(traced)} shape={shape} rewriter={type(rewriter).__name__}: {msg}\n--- stub ---\n{text}")

    for i, n in enumerate(names):
        p = sig.parameters[n]
        is_recv = has_self and i == 0
        src = None if p.annotation is inspect.Parameter.empty else _source_annotation(func, p.annotation)
        got = fi.annotations.get(n)
        want = "unchecked"
        if is_recv:
            # never given a traced type; a source annotation on it follows the strategy like any other
            if src is None or strategy is S.OMIT:
                want = None
            elif strategy is S.REPLICATE:
                want = src
        elif src is not None:
            if strategy is S.REPLICATE:
                want = src
            elif strategy is S.OMIT:
                want = None
            elif n in traced:
                want = traced[n]
        else:
            want = traced.get(n)  # unannotated: the traced type, or nothing - never invented
        if want == "unchecked":
            continue
        if want is None:
            if got is not None:
                return fail(f"parameter {n} carries annotation {O.show_type(got)} but should carry none")
            continue
        if p.default is None and not (O.is_union(want) and type(None) in want.__args__):
            want = Optional[want]
        if got is None or not O.struct_eq(got, want, unordered_unions=True):
            return fail(f"parameter {n}: stub says {O.show_type(got)}, expected {O.show_type(want)}")
    src_ret = None if sig.return_annotation is inspect.Signature.empty else _source_annotation(func, sig.return_annotation)
    want = "unchecked"
    traced_ret = None
    if shape == "return":
        traced_ret = ret
    elif shape in ("yield", "yield+None"):
        traced_ret = Iterator[yld]
    elif shape == "yield+return":
        traced_ret = Generator[yld, None, ret]
    if src_ret is not None:
        if strategy is S.REPLICATE:
            want = src_ret
        elif strategy is S.OMIT:
            want = None
        elif traced_ret is not None:
            want = traced_ret
    else:
        want = traced_ret
    if want != "unchecked":
        got = fi.returns if fi.has_return else None
        if want is None:
            if fi.has_return:
                return fail(f"return carries annotation {O.show_type(got)} but should carry none")
        elif not fi.has_return or not O.struct_eq(got, want, unordered_unions=True):
            return fail(f"return: stub says {O.show_type(got) if fi.has_return else '<none>'}, expected {O.show_type(want)}")
    return check(True)


# ---------------------------------------------------------------- the CLI flag path
CLI_FLAGS = ((), ("--ignore-existing-annotations",), ("--omit-existing-annotations",), ("--disable-type-rewriting",),
             ("--disable-type-rewriting", "--ignore-existing-annotations"))
FLAG_STRATEGY = {(): S.REPLICATE, ("--ignore-existing-annotations",): S.IGNORE, ("--omit-existing-annotations",): S.OMIT,
                 ("--disable-type-rewriting",): S.REPLICATE, ("--disable-type-rewriting", "--ignore-existing-annotations"): S.IGNORE}


def cli_body(t):
    """`monkeytype [--disable-type-rewriting] stub <module> [--ignore|--omit-existing-annotations]` through
    cli.main: the flags must select the strategy / rewriter they name (compared with the stub built directly)."""
    from vfix import cfg as CFG
    from harness.c10 import Sink
    from monkeytype import cli
    from monkeytype.encoding import CallTraceRow
    from monkeytype.stubs import build_module_stubs_from_traces
    from monkeytype.typing import DEFAULT_REWRITER

    flags = CLI_FLAGS[t.take(len(CLI_FLAGS))]
    func = (F.ann_class, F.ann_optional, F.unannotated, F.ann_none_default)[t.take(4)]
    names = list(inspect.signature(func).parameters)
    # an empty list next to a class: DEFAULT_REWRITER (RemoveEmptyContainers is a no-op here) vs NoOp differ on a large union
    traces = [CallTrace(func, {names[0]: ty}, int) for ty in (int, str, float, bytes, bool, K.B, K.A)[: 2 + t.take(6)]]
    CFG.CONFIG.store.rows = [CallTraceRow.from_trace(tr) for tr in traces]
    CFG.CONFIG.k = 0
    CFG.CONFIG.rewriter = DEFAULT_REWRITER
    out, err = Sink(), Sink()
    pre = [f for f in flags if f == "--disable-type-rewriting"]
    post = [f for f in flags if f != "--disable-type-rewriting"]
    try:
        rc = cli.main(pre + ["-c", "vfix.cfg:CONFIG", "stub", func.__module__] + post, out, err)
    finally:
        CFG.CONFIG.rewriter = None
    want = build_module_stubs_from_traces(traces, 0, FLAG_STRATEGY[flags], NoOpRewriter() if pre else DEFAULT_REWRITER)[func.__module__].render()
    got = out.getvalue().rstrip("\n")
    return check(rc == 0 and got == want, lambda: f"flags {flags} on {func.__qualname__} with {len(traces)} traces: exit {rc}, stdout\n{got}\nexpected\n{want}\nstderr {err.getvalue()!r}")


tape_harness("cli_flags", [("t", 3)], {}, cli_body, globals())
tape_harness("annot_quick", [("t", 15)], {}, lambda t: annot_body(t, FUNCS, TRACED_TYPES[:3]), globals())
tape_harness("annot_thorough", [("t", 15)], {}, lambda t: annot_body(t, FUNCS, TRACED_TYPES), globals())


def shards(name, prefix=3):
    from engine.verdicts import enumerate_prefixes

    if name == "cli_flags":
        return [{"t0": i, "t1": j} for i in range(len(CLI_FLAGS)) for j in range(4)]

    ty = TRACED_TYPES[:3] if name == "annot_quick" else TRACED_TYPES
    return [{f"t{j}": v for j, v in enumerate(p)} for p in enumerate_prefixes(lambda t: annot_body(t, FUNCS, ty), prefix)]


def describe(name, args):
    from engine.verdicts import Tape

    if name == "cli_flags":
        return {"flags": CLI_FLAGS[min(max(args.get("t0", 0), 0), len(CLI_FLAGS) - 1)], "tape": [args.get("t1"), args.get("t2")]}

    ks = sorted((k for k in args if k[0] == "t" and k[1:].isdigit()), key=lambda s: int(s[1:]))
    t = Tape([args[k] for k in ks])
    return {"strategy": STRATEGIES[t.take(3)].name, "function": FUNCS[t.take(len(FUNCS))].__qualname__, "tape": t.xs[2:10]}
