"""Tracer environment model: duck-typed frames/code objects fed to the real CallTracer, the
contract describing what CPython delivers to a profile function, and its validation against
the live interpreter (run natively on every check).

Contract (per frame):  call  ( return@YIELD_VALUE  call )*  return@{RETURN_* | any other opcode}
  * returned normally  <=> last opcode in RETURN_OPS (every opmap name starting with "RETURN_"
    except RETURN_GENERATOR), read from the running interpreter's `opcode` module;
  * suspended (yield / await) <=> last opcode == YIELD_VALUE; it is a *yield* iff the code object
    is not a coroutine (CO_COROUTINE clear); async generators are outside the model;
  * anything else is an exit by exception (arg is None).
"""
from __future__ import annotations

import opcode
import sys

from harness.common import VERIF  # noqa: F401 (sets sys.path)

CO_GENERATOR = 0x20
CO_COROUTINE = 0x80
CO_ITERABLE_COROUTINE = 0x100
CO_ASYNC_GENERATOR = 0x200

RETURN_OPS = frozenset(op for name, op in opcode.opmap.items() if name.startswith("RETURN_") and name != "RETURN_GENERATOR")
YIELD_OP = opcode.opmap["YIELD_VALUE"]


AT_OP, AT_YIELD, AT_RETURN, AT_RAISE = 0, 1, 2, 3  # indices into CodeView.co_code (values of a model frame's f_lasti)


def classify_exit(op, is_coroutine) -> str:
    """The environment contract's reading of a 'return' profile event."""
    if op == YIELD_OP:
        return "await" if is_coroutine else "yield"
    for r in sorted(RETURN_OPS):
        if op == r:
            return "return"
    return "exception"


class CodeView:
    """Forwards to a real code object but exposes a four-instruction `co_code` -- (an opcode chosen by the harness, possibly
    symbolic; YIELD_VALUE; a RETURN_* opcode; an opcode that is neither) -- and harness-chosen generator/coroutine flags.
    Like a real code object it is IMMUTABLE once created (a tracer may cache anything derived from it): the frame's `f_lasti`
    (AT_OP / AT_YIELD / AT_RETURN / AT_RAISE) says which instruction was executed last."""

    def __init__(self, real, op=0, flags=None, name=None):
        self._real = real
        self.co_code = (op, YIELD_OP, sorted(RETURN_OPS)[0], 0)
        self.co_flags = real.co_flags if flags is None else flags
        self.co_name = real.co_name if name is None else name
        self.co_varnames = real.co_varnames
        self.co_argcount = real.co_argcount
        self.co_kwonlyargcount = real.co_kwonlyargcount
        self.co_filename = real.co_filename
        self.co_firstlineno = real.co_firstlineno
        self.co_freevars, self.co_cellvars = real.co_freevars, real.co_cellvars
        self.co_posonlyargcount = real.co_posonlyargcount
        self.co_qualname = getattr(real, "co_qualname", real.co_name)

    def __ch_deep_realize__(self, memo):
        return self


class FakeFrame:
    def __init__(self, code, f_locals, f_globals=None, f_back=None, f_lasti=0):
        self.f_code = code
        self.f_locals = f_locals
        self.f_globals = f_globals if f_globals is not None else {}
        self.f_back = f_back
        self.f_lasti = f_lasti

    def __ch_deep_realize__(self, memo):
        return self


class ListLogger:
    """A CallTraceLogger that keeps what it is given (duck-typed: log/flush)."""

    def __init__(self):
        self.traces = []
        self.flushes = 0

    def log(self, trace):
        self.traces.append(trace)

    def flush(self):
        self.flushes += 1

    def __ch_deep_realize__(self, memo):
        return self


# ---------------------------------------------------------------- live-interpreter validation
class Recorded:
    """One profile event recorded from the real interpreter."""

    __slots__ = ("frame", "frame_id", "code", "event", "op", "lasti", "locals", "globals", "back_locals", "arg")

    def __init__(self, frame, event, arg):
        code = frame.f_code
        self.frame = frame  # keeps the frame alive so that ids are never reused
        self.frame_id = id(frame)
        self.code = code
        self.event = event
        self.lasti = frame.f_lasti
        self.op = code.co_code[frame.f_lasti] if 0 <= frame.f_lasti < len(code.co_code) else -1
        self.locals = dict(frame.f_locals)
        self.globals = frame.f_globals
        chain = []
        b = frame.f_back
        depth = 0
        while b is not None and depth < 6:
            chain.append(dict(b.f_locals))
            b = b.f_back
            depth += 1
        self.back_locals = chain
        self.arg = arg


def record_workload(workload, module_file_prefix):
    """Run `workload()` natively under a recording profiler; returns the recorded events of
    frames whose code lives under `module_file_prefix`."""
    events = []

    def prof(frame, event, arg):
        if event in ("call", "return") and frame.f_code.co_filename.startswith(module_file_prefix):
            events.append(Recorded(frame, event, arg))

    old = sys.getprofile()
    sys.setprofile(prof)
    try:
        workload()
    finally:
        sys.setprofile(old)
    return events


def validate_contract(events, journal):
    """Check that every recorded per-frame event sequence is one the model can produce and that
    the model's classification agrees with the workload's own journal of what really happened.

    `journal` maps code-object name -> list of expected exits in completion order, each one of
    ("return", value) | ("exception",) ; yields are journalled as ("yield", value).
    Returns a list of disagreements (empty = contract validated)."""
    problems = []
    per_frame = {}
    order = []
    for e in events:
        per_frame.setdefault(e.frame_id, []).append(e)
    seen = {}
    for fid, evs in per_frame.items():
        code = evs[0].code
        is_coro = bool(code.co_flags & CO_COROUTINE)
        if code.co_flags & CO_ASYNC_GENERATOR:
            continue
        state = "start"
        for e in evs:
            if state in ("start", "suspended"):
                if e.event != "call":
                    problems.append(f"{code.co_name}: expected call, got {e.event}")
                    break
                state = "running"
            elif state == "running":
                if e.event != "return":
                    problems.append(f"{code.co_name}: nested call event on the same frame")
                    break
                kind = classify_exit(e.op, is_coro)
                seen.setdefault(code.co_name, []).append((kind, e.arg))
                state = "suspended" if kind in ("yield", "await") else "done"
            else:
                problems.append(f"{code.co_name}: event after final exit")
                break
    for name, expected in journal.items():
        got = [(k, a) for k, a in seen.get(name, []) if k != "await"]
        if len(got) != len(expected):
            problems.append(f"{name}: model sees {[(k) for k, _ in got]}, workload journalled {[x[0] for x in expected]}")
            continue
        for (k, a), exp in zip(got, expected):
            if k != exp[0]:
                problems.append(f"{name}: model classifies {k}, really {exp[0]}")
            elif k in ("return", "yield") and len(exp) > 1 and not (a is exp[1] or a == exp[1]):
                problems.append(f"{name}: {k} value {a!r} != journalled {exp[1]!r}")
    return problems


_CACHE_ATTR = "?"  # (attribute name, None | index of the function inside a tuple value)
_TEMPLATES = {}


def _probe_call(func):
    """A scratch tracer after ONE real call event of `func` (real code object, module globals)."""
    from vfix import funcs as F
    from monkeytype.tracing import CallTracer

    t = CallTracer(ListLogger(), 0, None, None)
    code = func.__code__
    names = code.co_varnames[: code.co_argcount + code.co_kwonlyargcount]
    t(FakeFrame(code, {n: 0 for n in names}, vars(F), None, 0), "call", None)
    return t, code


_KEY_ATTRS = ("co_filename", "co_name", "co_qualname", "co_firstlineno")


def _key_spec(k, code):
    """How the memo's key `k` is made from `code`: None (the code object itself) or, for a tuple key, one entry per element:
    'code' or the name of the code attribute it equals.  False: not a key made from this code object."""
    if k is code:
        return None
    if isinstance(k, tuple) and any(x is code for x in k):
        spec = []
        for x in k:
            if x is code:
                spec.append("code")
                continue
            names = [a for a in _KEY_ATTRS if getattr(code, a, _KEY_ATTRS) == x and type(getattr(code, a)) is type(x)]
            if not names:
                return False
            spec.append(names[0])
        return tuple(spec)
    return False


def _make_key(spec, code):
    return code if spec is None else tuple(code if a == "code" else getattr(code, a) for a in spec)


def function_cache_attr():
    """Where the CallTracer memoises the function resolved for a code object, DISCOVERED on a real frame: a dict attribute
    that, after a real call event, holds a key made from the real code object (the code object itself, or a tuple of it and
    some of its attributes, e.g. (co_filename, code)) and, as its value, the function itself or a tuple containing it.

    The model frames of several harnesses carry a code VIEW (one symbolic opcode) that function lookup cannot resolve, so the
    resolved function has to be planted where the tracer memoises lookups.  Nothing else of the tracer's internal
    representation is used: states are built by feeding events, and judged through the log and through `residue` (a scan of
    whatever containers the tracer has).  If no such dict exists any more, those harnesses answer INCONCLUSIVE."""
    global _CACHE_ATTR
    if _CACHE_ATTR == "?":
        _CACHE_ATTR = None
        try:
            from vfix import funcs as F

            t, code = _probe_call(F.mod_func)
            for name, v in vars(t).items():
                if not isinstance(v, dict):
                    continue
                for k, val in v.items():
                    spec = _key_spec(k, code)
                    if spec is False:
                        continue
                    if val is F.mod_func:
                        _CACHE_ATTR = (name, None, spec)
                    elif isinstance(val, tuple) and any(x is F.mod_func for x in val):
                        _CACHE_ATTR = (name, [x is F.mod_func for x in val].index(True), spec)
                    break
                if _CACHE_ATTR:
                    break
        except Exception:  # noqa: BLE001
            _CACHE_ATTR = None
    return _CACHE_ATTR


def representation_ok():
    return function_cache_attr() is not None


def seed_function(tracer, code, func, like=None):
    """Plant `func` (None: unresolvable) as the function resolved for the (model) code object `code`, a view of the code of
    `like` (default: `func` itself)."""
    name, idx, spec = function_cache_attr()
    if idx is None:
        getattr(tracer, name)[_make_key(spec, code)] = func
        return
    base = like if like is not None else func
    if base not in _TEMPLATES:
        t, real = _probe_call(base)
        _TEMPLATES[base] = getattr(t, name)[_make_key(spec, real)]
    tmpl = _TEMPLATES[base]
    getattr(tracer, name)[_make_key(spec, code)] = tuple(func if i == idx else x for i, x in enumerate(tmpl))


def forget_function(tracer, code):
    name, _idx, spec = function_cache_attr()
    getattr(tracer, name).pop(_make_key(spec, code), None)


def in_flight(tracer, frame):
    """Does the tracer hold per-call state for `frame` (in whatever container it keeps such state)?"""
    return bool(residue(tracer, frame))


REPR_MSG = ("the tracer no longer memoises resolved functions in a dict attribute keyed by code object: the model frames of this "
            "harness (code views with a symbolic opcode) cannot be given their function, the harness needs updating")


def residue(tracer, frame):
    """Names of the tracer's container attributes (other than the per-code function cache) that
    still mention `frame`: per-call state that outlived the call."""
    out = []
    for name, v in vars(tracer).items():
        if function_cache_attr() and name == function_cache_attr()[0]:
            continue
        if isinstance(v, (dict, set, list, frozenset, tuple)):
            for x in list(v):
                if x is frame:
                    out.append(name)
                    break
    return out
