"""E1 `chx` -- CrossHair used as a library: symbolic execution of harness functions that call
the real monkeytype code, with z3 deciding every branch.

A *harness* is a plain Python function whose parameters are annotated int / bool / str.  It
returns one of the verdict strings PASS / SKIP / TRUNC or a tuple ("FAIL", detail); an
exception escaping the harness is a FAIL as well.  Under the engine the parameters are
z3-backed proxies; outside the engine (replay) the very same function runs concretely.

This module deliberately does not import crosshair at import time: replay.py and the
harness modules import `verdicts` only, so a counterexample is re-executed with no
engine loaded.
"""
from __future__ import annotations

import importlib
import inspect
import json
import multiprocessing as mp
import os
import sys
import time
import traceback
import typing
from collections import Counter
from typing import Any, Callable, Dict, List, Optional, Sequence, Tuple

PASS, SKIP, TRUNC = "PASS", "SKIP", "TRUNC"


def _install_solver_accounting():
    import z3

    if getattr(z3.Solver, "_verif_wrapped", False):
        return
    orig = z3.Solver.check
    stats = {"n": 0, "s": 0.0}

    def check(self, *a, **k):
        t = time.perf_counter()
        try:
            return orig(self, *a, **k)
        finally:
            stats["n"] += 1
            stats["s"] += time.perf_counter() - t

    z3.Solver.check = check
    z3.Solver._verif_wrapped = True
    z3.Solver._verif_stats = stats


def _install_shims():
    """Neutralise engine modelling defects found by probing (DESIGN.md section 2.4)."""
    import re

    from crosshair import core

    # crosshair 0.0.110 models re.Pattern.sub/subn by searching the *remaining suffix* after each
    # match, which loses look-behind context ('(?<![\\w.])' sees a fresh start of string).  The
    # strings that reach re.sub in this project are concrete per path: realise and call the real one.
    for fn in (re.Pattern.sub, re.Pattern.subn):
        core._PATCH_REGISTRATIONS[fn] = core.with_realized_args(fn)
    # crosshair skips functools.lru_cache altogether (calls __wrapped__): memoisation in the code under test --
    # a value-keyed cache that confuses (1,) with (True,), a cache whose entries the caller mutates -- would be
    # invisible to the engine.  Keep the real cache; its arguments are realised first (they are concrete per path
    # everywhere in this project except a mutant's own use of k, which is then pinned on that path).
    from functools import _lru_cache_wrapper

    core._PATCH_REGISTRATIONS[_lru_cache_wrapper.__call__] = core.with_realized_args(_lru_cache_wrapper.__call__)

    # crosshair's isinstance(obj, C) is issubclass(type(obj), C): it never reads obj.__class__.  CPython's does when type(obj)
    # is not a subclass of C (Objects/abstract.c object_isinstance), so code under test that asks isinstance() about an object
    # whose __class__ lies (mock specs, lazy proxies) would behave differently under the engine than in a real interpreter.
    # For objects of the harness (not engine proxies) the CPython rule is added on top of crosshair's answer.
    import builtins

    from crosshair.core import CrossHairValue, NoTracing

    ch_isinstance = core._PATCH_REGISTRATIONS[builtins.isinstance]
    ch_issubclass = core._PATCH_REGISTRATIONS[builtins.issubclass]

    def _isinstance(obj, types):
        r = ch_isinstance(obj, types)
        if r is not False:
            return r
        with NoTracing():
            if isinstance(obj, CrossHairValue) or isinstance(types, CrossHairValue):
                return r
            t = type(obj)
        try:
            icls = obj.__class__  # a full attribute access, as in CPython
        except AttributeError:
            return False
        with NoTracing():
            if icls is t or not type.__instancecheck__(type, icls):
                return False
            flat = types if type(types) is tuple else (types,)
            if any(type(c) is not type for c in flat):  # ABCs / nested tuples / symbolic classes: crosshair's answer stands
                return False
        return ch_issubclass(icls, types)

    core._PATCH_REGISTRATIONS[builtins.isinstance] = _isinstance


def _solver_stats():
    import z3

    return z3.Solver._verif_stats


def classify(ret, exc) -> Tuple[str, Optional[str]]:
    """Map a harness outcome to (verdict, detail)."""
    if exc is not None:
        return "FAIL", "exception: " + _short(repr(exc))
    if isinstance(ret, tuple) and len(ret) == 2 and ret[0] == "FAIL":
        return "FAIL", _short(str(ret[1]))
    if isinstance(ret, str) and ret in (PASS, SKIP, TRUNC):
        return ret, None
    if isinstance(ret, tuple) and len(ret) == 2 and ret[0] == "INCONCLUSIVE":
        # the harness cannot judge this path (e.g. the code under test uses an environment API the stub does not
        # model): neither a pass nor a violation -- the whole check answers exit 2
        return "INCONCLUSIVE", _short(str(ret[1]))
    return "FAIL", "harness returned non-verdict: " + _short(repr(ret))


def _short(s: str, n: int = 600) -> str:
    return s if len(s) <= n else s[:n] + "..."


def run_concrete(fn: Callable, args: Dict[str, Any]) -> Tuple[str, Optional[str]]:
    """Execute the harness on concrete arguments (no engine)."""
    try:
        ret = fn(**args)
    except Exception as e:  # noqa: BLE001 - any escaping exception is a failure of the property
        return "FAIL", "exception: " + _short("".join(traceback.format_exception_only(type(e), e)).strip())
    return classify(ret, None)


def explore_shard(
    modname: str,
    fname: str,
    fixed: Dict[str, Any],
    deadline: float,
    per_path_timeout: float,
    twin: bool,
    max_samples: int,
    stop_on_fail: bool = True,
    max_paths: int = 10**9,
) -> Dict[str, Any]:
    """Explore one shard (sub-tree with `fixed` parameters concrete) until the path tree is
    exhausted, a FAIL is found, or the wall-clock deadline passes."""
    _install_solver_accounting()
    from crosshair.core import (  # noqa
        COMPOSITE_TRACER,
        ExceptionFilter,
        NoTracing,
        Patched,
        ResumedTracing,
        StateSpace,
        StateSpaceContext,
        condition_parser,
        deep_realize,
        gen_args,
    )
    import crosshair.core_and_libs  # noqa: F401  (registers stdlib patches)
    _install_shims()
    from crosshair.copyext import CopyMode, deepcopyext
    from crosshair.options import DEFAULT_OPTIONS, AnalysisOptionSet
    from crosshair.statespace import CallAnalysis, RootNode, VerificationStatus
    from crosshair.util import IgnoreAttempt, NotDeterministic, UnexploredPath
    from time import process_time

    from engine import verdicts

    mod = importlib.import_module(modname)
    fn = getattr(mod, fname)
    verdicts.TWIN = twin
    verdicts.UNDER_ENGINE = True
    hints = typing.get_type_hints(fn)
    sig0 = inspect.signature(fn)
    params = [
        p.replace(annotation=hints[p.name])
        for p in sig0.parameters.values()
        if p.name not in fixed
    ]
    sig = inspect.Signature(params)
    options = DEFAULT_OPTIONS.overlay(
        AnalysisOptionSet(
            per_condition_timeout=1e9,
            per_path_timeout=per_path_timeout,
            max_iterations=10**9,
            max_uninteresting_iterations=sys.maxsize,
        )
    )
    options.stats = Counter()
    root = RootNode()
    st0 = dict(_solver_stats())
    res: Dict[str, Any] = {
        "fixed": fixed,
        "paths": 0,
        "PASS": 0,
        "SKIP": 0,
        "TRUNC": 0,
        "FAIL": 0,
        "unknown": 0,
        "ignored": 0,
        "decisions": 0,
        "exhausted": False,
        "fails": [],
        "samples": [],
        "error": None,
    }
    t0 = time.time()
    exhausted = False
    try:
        while time.time() < deadline and res["paths"] + res["unknown"] + res["ignored"] < max_paths:
            itr_start = process_time()
            space = StateSpace(
                execution_deadline=itr_start + per_path_timeout,
                model_check_timeout=per_path_timeout / 2,
                search_root=root,
            )
            breakout = False
            with condition_parser(options.analysis_kind), Patched(), COMPOSITE_TRACER, NoTracing(), StateSpaceContext(space):
                try:
                    pre_args = gen_args(sig)
                    args = deepcopyext(pre_args, CopyMode.REGULAR, {})
                    ret: object = None
                    user_exc = None
                    with ExceptionFilter() as efilter, ResumedTracing():
                        ret = fn(**dict(args.arguments), **fixed)
                    if efilter.user_exc:
                        if isinstance(efilter.user_exc[0], NotDeterministic):
                            raise NotDeterministic
                        user_exc = efilter.user_exc[0]
                    elif efilter.ignore:
                        raise IgnoreAttempt("filtered")
                    with ResumedTracing():
                        verdict, detail = classify(ret, user_exc)
                    if verdict == "INCONCLUSIVE":
                        res["error"] = "harness inconclusive: " + str(detail)
                        break
                    res["paths"] += 1
                    res[verdict] += 1
                    res["decisions"] += len(space.choices_made)
                    if verdict == "FAIL" or (verdict == "PASS" and len(res["samples"]) < max_samples and (res["PASS"] - 1) % 5 == 0):
                        # detach first: realisation must not grow the search tree (each realised
                        # symbol would otherwise fork the path and leave a sibling to explore)
                        with ResumedTracing():
                            space.detach_path()
                        with NoTracing():
                            conc = dict(deep_realize(pre_args).arguments)
                        conc.update(fixed)
                        if verdict == "FAIL":
                            res["fails"].append({"args": conc, "detail": detail})
                            breakout = stop_on_fail or len(res["fails"]) >= 20
                        else:
                            res["samples"].append(conc)
                    status = VerificationStatus.CONFIRMED
                except IgnoreAttempt:
                    res["ignored"] += 1
                    status = None
                except UnexploredPath as e:
                    res["unknown"] += 1
                    res.setdefault("unknown_kinds", Counter())[type(e).__name__] += 1
                    status = VerificationStatus.UNKNOWN
                _analysis, exhausted = space.bubble_status(CallAnalysis(status))
            if breakout or exhausted:
                break
    except NotDeterministic:
        res["error"] = "NotDeterministic"
    except BaseException as e:  # noqa: BLE001
        res["error"] = "engine error: " + _short("".join(traceback.format_exception(type(e), e, e.__traceback__)), 3000)
    res["exhausted"] = bool(exhausted) and res["error"] is None and not res["fails"]
    if "unknown_kinds" in res:
        res["unknown_kinds"] = dict(res["unknown_kinds"])
    st1 = _solver_stats()
    res["solver_queries"] = st1["n"] - st0["n"]
    res["solver_seconds"] = round(st1["s"] - st0["s"], 3)
    res["wall"] = round(time.time() - t0, 3)
    verdicts.TWIN = False
    verdicts.UNDER_ENGINE = False
    return res


def _worker(task):
    try:
        return explore_shard(*task)
    except BaseException as e:  # noqa: BLE001
        return {"fixed": task[2], "error": "worker crashed: " + _short(repr(e), 2000), "paths": 0, "PASS": 0, "SKIP": 0,
                "TRUNC": 0, "FAIL": 0, "unknown": 0, "ignored": 0, "decisions": 0, "exhausted": False, "fails": [],
                "samples": [], "solver_queries": 0, "solver_seconds": 0.0, "wall": 0.0}


def shard_product(ranges: Dict[str, Sequence[Any]]) -> List[Dict[str, Any]]:
    out: List[Dict[str, Any]] = [{}]
    for k, vals in ranges.items():
        out = [dict(d, **{k: v}) for d in out for v in vals]
    return out


def explore(
    modname: str,
    fname: str,
    shards: List[Dict[str, Any]],
    budget_s: float,
    per_path_timeout: float = 30.0,
    twin: bool = False,
    procs: int = 16,
    max_samples: int = 2,
    stop_on_fail: bool = True,
    max_paths: int = 10**9,
) -> Dict[str, Any]:
    """Run all shards of one harness over a process pool and merge the statistics."""
    procs = int(os.environ.get("VERIF_PROCS", "0") or 0) or procs
    deadline = time.time() + budget_s
    every = max(1, len(shards) // 48)  # realise sample inputs in ~48 shards only (every 5th passing path of those, up to max_samples)
    tasks = [(modname, fname, fx, deadline, per_path_timeout, twin, max_samples if i % every == 0 else 0, stop_on_fail, max_paths)
             for i, fx in enumerate(shards)]
    t0 = time.time()
    _preload(modname)
    tasks.sort(key=lambda t: -sum(v for v in t[2].values() if isinstance(v, int) and not isinstance(v, bool)))
    results = _run_tasks(tasks, min(procs, len(tasks)), stop_on_fail)
    agg: Dict[str, Any] = {k: 0 for k in ("paths", "PASS", "SKIP", "TRUNC", "FAIL", "unknown", "ignored", "decisions", "solver_queries")}
    agg["solver_seconds"] = 0.0
    agg["fails"], agg["samples"], agg["errors"] = [], [], []
    for r in results:
        for k in ("paths", "PASS", "SKIP", "TRUNC", "FAIL", "unknown", "ignored", "decisions", "solver_queries"):
            agg[k] += r.get(k, 0)
        agg["solver_seconds"] += r.get("solver_seconds", 0.0)
        agg["fails"].extend(r["fails"])
        agg["samples"].extend(r["samples"][:max_samples])
        if r.get("error"):
            agg["errors"].append(r["error"])
    agg["shards"] = len(tasks)
    agg["shards_done"] = len(results)
    agg["shards_exhausted"] = sum(1 for r in results if r["exhausted"])
    agg["exhausted"] = len(results) == len(tasks) and all(r["exhausted"] for r in results) and agg["unknown"] == 0
    agg["solver_seconds"] = round(agg["solver_seconds"], 3)
    agg["wall"] = round(time.time() - t0, 3)
    agg["harness"] = f"{modname}.{fname}"
    return agg


def _preload(modname):
    """Import the engine and the harness module in the parent so forked workers share them."""
    _install_solver_accounting()
    import crosshair.core_and_libs  # noqa: F401

    importlib.import_module(modname)


def _child(conn, task):
    try:
        r = _worker(task)
    except BaseException as e:  # noqa: BLE001
        r = _crashed(task, "worker crashed: " + _short(repr(e), 2000))
    try:
        conn.send(r)
    finally:
        conn.close()
        os._exit(0)  # no atexit handlers / finalizers of the parent's state in the forked child


def _crashed(task, msg):
    return {"fixed": task[2], "error": msg, "paths": 0, "PASS": 0, "SKIP": 0, "TRUNC": 0, "FAIL": 0, "unknown": 0, "ignored": 0, "decisions": 0,
            "exhausted": False, "fails": [], "samples": [], "solver_queries": 0, "solver_seconds": 0.0, "wall": 0.0}


def _run_tasks(tasks, procs, stop_on_fail):
    """One fresh forked process per shard, at most `procs` at a time, every fork made by THIS (single) thread.

    (multiprocessing.Pool forks replacement workers from a helper thread; with one task per worker that happens all the
    time, and a child forked while another thread of the parent holds a lock can deadlock: seen once as a check that
    never finished.)  Whatever the code under test remembers between calls (module-level caches, memoised results)
    cannot leak from one shard's paths into another's."""
    from multiprocessing import connection

    ctx = mp.get_context("fork")
    pending = list(tasks)
    running = {}
    results = []
    try:
        while pending or running:
            while pending and len(running) < procs:
                task = pending.pop(0)
                parent_conn, child_conn = ctx.Pipe(duplex=False)
                sys.stdout.flush()
                sys.stderr.flush()
                p = ctx.Process(target=_child, args=(child_conn, task), daemon=True)
                p.start()
                child_conn.close()
                running[parent_conn] = (p, task)
            ready = connection.wait(list(running), timeout=5.0)
            now = time.time()
            for c in list(running):
                p, task = running[c]
                r = None
                alive = p.is_alive()  # (read BEFORE polling: a result sent just before the exit is then still seen)
                if c in ready or c.poll(0):
                    try:
                        r = c.recv()
                    except (EOFError, OSError):
                        r = _crashed(task, "worker died without a result (exit code %r)" % (p.exitcode,))
                elif not alive:
                    r = _crashed(task, "worker died without a result (exit code %r)" % (p.exitcode,))
                elif now > task[3] + 120 + 2 * task[4]:
                    # far past the job's deadline plus a path's time-out: a stuck worker must not hang the check
                    p.kill()
                    r = _crashed(task, "worker stuck past its deadline: killed")
                if r is None:
                    continue
                c.close()
                p.join(timeout=10)
                del running[c]
                results.append(r)
                if r["fails"] and stop_on_fail:
                    pending = []
                    for c2, (p2, _t2) in list(running.items()):
                        p2.kill()
                        c2.close()
                        p2.join(timeout=10)
                    running = {}
                    break
    finally:
        for c2, (p2, _t2) in list(running.items()):
            p2.kill()
    return results


def jsonable(x):
    try:
        json.dumps(x)
        return x
    except TypeError:
        if isinstance(x, dict):
            return {str(k): jsonable(v) for k, v in x.items()}
        if isinstance(x, (list, tuple)):
            return [jsonable(v) for v in x]
        return repr(x)
