"""Verdict helpers shared by every harness (engine-free: importable in a plain interpreter)."""
from __future__ import annotations

PASS, SKIP, TRUNC = "PASS", "SKIP", "TRUNC"

# Set by the driver for the reachability twin: every oracle site answers FAIL, so a twin
# that does *not* fail proves the harness never reaches its assertion (vacuity).
TWIN = False

# True only inside the engine's worker processes while a harness is explored symbolically; harnesses use it
# to install contract models of builtins whose engine model differs from CPython (harness/tripwires.py).
UNDER_ENGINE = False


def FAIL(detail):
    return ("FAIL", detail)


def INCONCLUSIVE(detail):
    """This path cannot be judged by the harness (not a pass, not a violation): the check exits 2."""
    return ("INCONCLUSIVE", detail)


def check(cond, detail="oracle false"):
    """The assertion site of a harness."""
    if TWIN:
        return FAIL("twin-reached")
    if cond:
        return PASS
    return FAIL(detail() if callable(detail) else detail)


class Truncated(Exception):
    """The builder needed more tape symbols than the bound provides (unwinding assertion)."""


class Tape:
    """A finite tape of (symbolic) ints decoded by branching.

    `take(n)` maps the next symbol x to an alternative in range(n) by binary search on
    comparisons: x <= 0 decodes to 0, x >= n-1 to n-1, so every integer decodes to something,
    no path is spent on range assumptions and one path corresponds to exactly one decoded shape.
    """

    def __init__(self, xs):
        self.xs = list(xs)
        self.i = 0

    def take(self, n: int) -> int:
        if self.i >= len(self.xs):
            raise Truncated()
        x = self.xs[self.i]
        self.i += 1
        # binary decode: x <= 0 -> 0, x >= n-1 -> n-1, ceil(log2 n) solver decisions
        lo, hi = 0, n - 1
        while lo < hi:
            mid = (lo + hi) // 2
            if x <= mid:
                hi = mid
            else:
                lo = mid + 1
        return lo

    def raw(self):
        """Next symbol, undecoded (stays symbolic)."""
        if self.i >= len(self.xs):
            raise Truncated()
        x = self.xs[self.i]
        self.i += 1
        return x

    def used(self) -> int:
        return self.i


class _NeedMore(Exception):
    def __init__(self, n):
        self.n = n


class _EnumTape(Tape):
    def __init__(self, prefix):
        self.prefix = list(prefix)
        self.i = 0

    def take(self, n: int) -> int:
        if self.i < len(self.prefix):
            v = self.prefix[self.i]
            self.i += 1
            return min(max(v, 0), n - 1)
        raise _NeedMore(n)

    def raw(self):
        raise _NeedMore(None)


def enumerate_prefixes(build, max_len):
    """All concrete tape prefixes of length <= max_len that `build(tape)` can consume.

    The prefixes partition the builder's decision tree, so fixing the leading tape symbols of
    a harness to each prefix in turn yields disjoint shards whose union is the whole tree.

    `build` usually runs the harness body, i.e. the code under test, natively: it is run in a forked child so that
    whatever that code remembers between calls (a cache, a consumed iterator) stays out of the process the exploration
    workers are later forked from.
    """
    return forked(_enumerate_prefixes, build, max_len)


def forked(fn, *args):
    """fn(*args) evaluated in a forked child; the (picklable) result is sent back.  Falls back to a direct call."""
    import multiprocessing as mp
    import os

    try:
        ctx = mp.get_context("fork")
        r, w = ctx.Pipe(duplex=False)
    except Exception:  # noqa: BLE001
        return fn(*args)

    def child():
        try:
            w.send(("ok", fn(*args)))
        except BaseException as e:  # noqa: BLE001
            w.send(("err", repr(e)))
        finally:
            w.close()
            os._exit(0)

    p = ctx.Process(target=child, daemon=True)
    p.start()
    w.close()
    try:
        kind, val = r.recv()
    except EOFError:
        kind, val = "err", "child died"
    p.join(timeout=30)
    if kind == "err":
        raise RuntimeError(f"forked evaluation failed: {val}")
    return val


def _enumerate_prefixes(build, max_len):
    out, stack = [], [[]]
    while stack:
        p = stack.pop()
        try:
            build(_EnumTape(p))
            out.append(p)
        except _NeedMore as e:
            if len(p) >= max_len or e.n is None:
                out.append(p)
            else:
                stack.extend(p + [i] for i in range(e.n))
        except Exception:  # noqa: BLE001
            # the body ran past the builder into real code that failed on this concrete prefix:
            # the prefix is complete; the exploration of that shard will report the failure
            out.append(p)
    out.sort()
    return out
