"""A small front end for the SQL subset MonkeyType's SQLite store emits.

    query   := SELECT [DISTINCT | ALL] cols FROM source [WHERE cond (AND cond)*] [GROUP BY cols] [ORDER BY <anything up to LIMIT>] [LIMIT ?]
    source  := identifier | '(' query ')'
    cond    := col (== | =) ?
             | col LIKE ? '||' '%'            | col LIKE ?
             | col GLOB ? '||' '*'
             | substr '(' col ',' 1 ',' length '(' ? ')' ')' (== | =) ?
             | instr '(' col ',' ? ')' (== | =) 1

Anything else raises Unsupported: the check then answers "inconclusive" (exit 2), never "holds".
Placeholders are numbered in textual order (the order sqlite3 binds them).
"""
from __future__ import annotations

import re
from typing import Any, Dict, List


class Unsupported(Exception):
    pass


_TOKEN = re.compile(r"\s*(--[^\n]*\n|'(?:[^']|'')*'|\|\||==|<=|>=|<>|!=|:[A-Za-z_][A-Za-z_0-9]*|[(),?=*<>]|[A-Za-z_][A-Za-z_0-9]*|[0-9]+)")


def tokenize(sql: str) -> List[str]:
    out, pos = [], 0
    sql = sql.strip()
    while pos < len(sql):
        m = _TOKEN.match(sql, pos)
        if not m:
            if sql[pos:].strip() in ("", ";"):
                break
            raise Unsupported(f"cannot tokenize at {sql[pos:pos + 30]!r}")
        tok = m.group(1)
        pos = m.end()
        if tok.startswith("--"):
            continue
        out.append(tok)
    return out


class Parser:
    def __init__(self, toks):
        self.t = toks
        self.i = 0
        self.nparam = 0

    def peek(self, k=0):
        return self.t[self.i + k].upper() if self.i + k < len(self.t) else None

    def raw(self):
        return self.t[self.i] if self.i < len(self.t) else None

    def eat(self, *expected):
        tok = self.raw()
        if tok is None or (expected and tok.upper() not in expected):
            raise Unsupported(f"expected {expected}, got {tok!r}")
        self.i += 1
        return tok

    def param(self):
        """A positional `?` (numbered in textual order, as sqlite3 binds them) or a named `:name` placeholder (its name)."""
        tok = self.raw()
        if tok is not None and tok.startswith(":") and len(tok) > 1:
            self.i += 1
            return tok[1:]
        self.eat("?")
        self.nparam += 1
        return self.nparam - 1

    def cols(self):
        if self.peek() == "*":
            self.eat("*")
            return ["*"]
        out = [self.col_expr()]
        while self.peek() == ",":
            self.eat(",")
            out.append(self.col_expr())
        return out

    def col_expr(self):
        """A column name, or the one column expression the store's SQL uses: date(created_at) (the day of the row)."""
        if self.peek() == "DATE" and self.peek(1) == "(":
            self.eat("DATE")
            self.eat("(")
            col = self.ident()
            self.eat(")")
            if col.lower() != "created_at":
                raise Unsupported(f"date({col})")
            return "date(created_at)"
        return self.ident()

    def ident(self):
        tok = self.raw()
        if tok is None or not re.fullmatch(r"[A-Za-z_][A-Za-z_0-9]*", tok):
            raise Unsupported(f"expected a column/table name, got {tok!r}")
        self.i += 1
        return tok

    def query(self) -> Dict[str, Any]:
        self.eat("SELECT")
        distinct = False
        if self.peek() == "DISTINCT":
            self.eat("DISTINCT")
            distinct = True
        elif self.peek() == "ALL":
            self.eat("ALL")
        q: Dict[str, Any] = {"select": self.cols(), "where": [], "group_by": None, "order_by": None, "limit": None, "distinct": distinct}
        self.eat("FROM")
        if self.peek() == "(":
            self.eat("(")
            q["source"] = self.query()
            self.eat(")")
        else:
            q["source"] = self.ident()
        if self.peek() == "WHERE":
            self.eat("WHERE")
            q["where"].append(self.cond())
            while self.peek() == "AND":
                self.eat("AND")
                q["where"].append(self.cond())
        if self.peek() == "GROUP":
            self.eat("GROUP")
            self.eat("BY")
            q["group_by"] = self.cols()
        if distinct:
            # SELECT DISTINCT cols == one row per distinct value of the selected columns == GROUP BY cols
            if q["select"] == ["*"]:
                raise Unsupported("SELECT DISTINCT *")
            if q["group_by"] is None:
                q["group_by"] = list(q["select"])
            elif set(q["group_by"]) != set(q["select"]):
                raise Unsupported("SELECT DISTINCT combined with a different GROUP BY")
        if self.peek() == "ORDER":
            self.eat("ORDER")
            self.eat("BY")
            depth, start = 0, self.i
            while self.raw() is not None and not (depth == 0 and self.peek() in ("LIMIT", ")")):
                if self.raw() == "(":
                    depth += 1
                elif self.raw() == ")":
                    depth -= 1
                self.i += 1
            q["order_by"] = " ".join(self.t[start:self.i])
        if self.peek() == "LIMIT":
            self.eat("LIMIT")
            q["limit"] = self.param()
        return q

    def cond(self) -> Dict[str, Any]:
        if self.peek() == "SUBSTR":
            self.eat("SUBSTR")
            self.eat("(")
            col = self.ident()
            self.eat(",")
            if self.eat() != "1":
                raise Unsupported("substr start must be 1")
            self.eat(",")
            self.eat("LENGTH")
            self.eat("(")
            p_len = self.param()
            self.eat(")")
            self.eat(")")
            self.eat("==", "=")
            return {"op": "substr_eq", "col": col, "len_param": p_len, "param": self.param()}
        if self.peek() == "INSTR":
            self.eat("INSTR")
            self.eat("(")
            col = self.ident()
            self.eat(",")
            p = self.param()
            self.eat(")")
            self.eat("==", "=")
            if self.eat() != "1":
                raise Unsupported("instr(...) must be compared with 1")
            return {"op": "instr1", "col": col, "param": p}
        col = self.ident()
        op = self.eat().upper()
        if op in ("==", "="):
            return {"op": "eq", "col": col, "param": self.param()}
        if op in ("LIKE", "GLOB"):
            p = self.param()
            suffix = ""
            if self.peek() == "||":
                self.eat("||")
                lit = self.eat()
                if not (lit.startswith("'") and lit.endswith("'")):
                    raise Unsupported(f"expected a string literal after ||, got {lit!r}")
                suffix = lit[1:-1].replace("''", "'")
            return {"op": op.lower(), "col": col, "param": p, "suffix": suffix}
        raise Unsupported(f"operator {op!r}")


def parse(sql: str) -> Dict[str, Any]:
    p = Parser(tokenize(sql))
    q = p.query()
    if p.raw() not in (None, ";"):
        raise Unsupported(f"trailing tokens: {p.t[p.i:p.i + 5]}")
    q["n_params"] = p.nparam
    return q
