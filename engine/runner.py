"""Runs the jobs of one property check: known-finding witnesses, reachability twins, symbolic
exploration, concrete replay of counterexamples, evidence, exit code.

Exit codes: 0 property held on everything explored / 1 violation (replayed on the real code
outside the engine) / 2 inconclusive (engine or harness error, vacuous harness, solver unknown).
"""
from __future__ import annotations

import hashlib
import importlib
import json
import os
import subprocess
import sys
import time
from dataclasses import dataclass, field
from typing import Any, Callable, Dict, List, Optional

from engine import chx

VERIF = os.path.dirname(os.path.dirname(os.path.abspath(__file__)))
REPLAYS = os.path.join(VERIF, "replays")
# my own mutation runs (VERIF_REPO pointing at a scratch copy) must not overwrite the evidence of /repo
EVIDENCE = os.environ.get("VERIF_EVIDENCE_DIR") or (os.path.join(VERIF, "evidence") if os.environ.get("VERIF_REPO", "/repo") == "/repo"
                                                     else "/tmp/verif-mutant-evidence")
KNOWN = os.path.join(VERIF, "known_findings.json")
PLAIN_PY = "/venv/bin/python"  # replay interpreter: no CrossHair on its path


@dataclass
class Job:
    module: str  # harness module, e.g. "harness.c04"
    name: str  # harness function
    shards: List[Dict[str, Any]]
    budget: float  # wall seconds for the exploration
    bounds: Dict[str, Any]
    rule: str
    per_path_timeout: float = 30.0
    describe: Optional[Callable[[str, Dict[str, Any]], Any]] = None
    must_exhaust: bool = False  # True: an un-exhausted tree is reported as inconclusive (exit 2); default: evidence is downgraded to 'exploration'
    twin_budget: float = 60.0
    max_samples: int = 3
    validate_limit: int = 120  # how many explored (PASS) paths are re-executed concretely outside the engine, one after the other in ONE process


def load_known(pid: str):
    try:
        data = json.load(open(KNOWN))
    except FileNotFoundError:
        return []
    return [f for f in data.get("findings", []) if f["property"] == pid]


def replay_file(pid: str, harness: str, args: Dict[str, Any], detail: str) -> str:
    os.makedirs(REPLAYS, exist_ok=True)
    blob = json.dumps({"property": pid, "harness": harness, "args": args, "detail": detail}, sort_keys=True, default=repr)
    h = hashlib.sha1(blob.encode()).hexdigest()[:10]
    path = os.path.join(REPLAYS, f"{pid}-{h}.json")
    with open(path, "w") as f:
        f.write(blob)
    return path


def replay_sequence(pid: str, harness: str, seq, detail: str):
    """Try a history of cases in ONE fresh interpreter; returns (path, detail) of the shortest failing
    prefix if it fails reproducibly, else None."""
    os.makedirs(REPLAYS, exist_ok=True)
    blob = json.dumps({"property": pid, "harness": harness, "sequence": seq, "detail": detail}, sort_keys=True, default=repr)
    path = os.path.join(REPLAYS, f"{pid}-seq-{hashlib.sha1(blob.encode()).hexdigest()[:10]}.json")
    open(path, "w").write(blob)
    env = dict(os.environ)
    env["PYTHONPATH"] = VERIF
    p = subprocess.run([PLAIN_PY, "-m", "engine.replay", path], cwd=VERIF, env=env, capture_output=True, text=True, timeout=600)
    last = [ln for ln in p.stdout.splitlines() if ln.startswith("REPLAY ")]
    os.unlink(path)
    if not last:
        return None
    rec = json.loads(last[-1][len("REPLAY "):])
    if rec["verdict"] != "FAIL" or rec.get("index") is None:
        return None
    prefix = seq[: rec["index"] + 1]
    blob = json.dumps({"property": pid, "harness": harness, "sequence": prefix, "detail": rec["detail"]}, sort_keys=True, default=repr)
    path = os.path.join(REPLAYS, f"{pid}-seq-{hashlib.sha1(blob.encode()).hexdigest()[:10]}.json")
    open(path, "w").write(blob)
    verdict, detail2 = replay_concrete(path)
    if verdict == "FAIL":
        return path, detail2
    os.unlink(path)
    return None


def replay_concrete(path: str, timeout: float = 300.0):
    """Re-execute a counterexample in a plain interpreter (no engine). Returns (verdict, detail)."""
    env = dict(os.environ)
    env["PYTHONPATH"] = VERIF
    env.pop("PYTHONHASHSEED", None)
    try:
        p = subprocess.run([PLAIN_PY, "-m", "engine.replay", path], cwd=VERIF, env=env, capture_output=True, text=True, timeout=timeout)
    except subprocess.TimeoutExpired:
        return "ERROR", "replay timed out"
    last = [ln for ln in p.stdout.splitlines() if ln.startswith("REPLAY ")]
    if not last:
        return "ERROR", (p.stdout + p.stderr)[-1500:]
    rec = json.loads(last[-1][len("REPLAY "):])
    return rec["verdict"], rec.get("detail")


def run_check(pid: str, tier: str, jobs: List[Job], functions: List[str], assumptions: List[str],
              extra: Optional[Dict[str, Any]] = None, pre: Optional[Callable[[], Dict[str, Any]]] = None,
              level_if_exhausted: str = "model_checking") -> int:
    t0 = time.time()
    seed = int(os.environ.get("VERIF_SEED", "0") or 0)
    os.makedirs(EVIDENCE, exist_ok=True)
    violations: List[str] = []
    inconclusive: List[str] = []
    known_lines: List[str] = []
    job_reports = []
    samples = []
    totals = dict(paths=0, PASS=0, SKIP=0, TRUNC=0, unknown=0, decisions=0, solver_queries=0, solver_seconds=0.0, replayed=0)
    artefacts = []
    extra = dict(extra or {})
    only = os.environ.get("VERIF_ONLY_JOBS")
    if only and os.environ.get("VERIF_REPO", "/repo") != "/repo":
        # seed triage only (a patched scratch worktree): never thins a run against /repo itself
        jobs = [j for j in jobs if any(o in j.name for o in only.split(","))]

    # 0. property-specific concrete preparation (model validation etc.)
    if pre is not None:
        try:
            info = pre() or {}
            for path, detail in info.pop("violations", []):
                violations.append(path)
                print(f"VIOLATION property={pid} replay={path}", flush=True)
                print(f"  {detail}", flush=True)
            for k in ("solver_queries", "solver_seconds"):
                totals[k] += info.pop("_" + k, 0)
            pre_states = info.pop("_states", 0)
            totals["PASS"] += pre_states
            totals["paths"] += pre_states
            totals["decisions"] += info.pop("_transitions", 0)
            extra.update(info)
            if info.get("inconclusive"):
                inconclusive.append(str(info["inconclusive"]))
        except Exception as e:  # noqa: BLE001
            inconclusive.append(f"preparation failed: {e!r}")

    # 1. known findings: replay stored witnesses on the current tree
    for kf in load_known(pid):
        w = kf["witness"]
        path = replay_file(pid, w["harness"], w["args"], "known-finding witness " + kf["finding_id"])
        verdict, detail = replay_concrete(path)
        if verdict == "FAIL":
            known_lines.append(f"KNOWN-FINDING: property={pid} {kf['finding_id']}: {kf['what']}")
        elif verdict == "ERROR":
            inconclusive.append(f"known-finding witness {kf['finding_id']} could not be replayed: {detail}")
        # PASS/SKIP: the defect is gone on this tree; nothing is printed, nothing is suppressed.
    for ln in known_lines:
        print(ln, flush=True)

    # 2. jobs
    all_exhausted = True
    for job in jobs:
        if violations and os.environ.get("VERIF_STOP_ON_VIOLATION"):
            break  # (my own seeded-change runs: one confirmed violation is enough)
        hname = f"{job.module}.{job.name}"
        # 2a. reachability twin
        tw = chx.explore(job.module, job.name, job.shards, job.twin_budget, job.per_path_timeout, twin=True, max_samples=0)
        twin_ok = any(f["detail"] == "twin-reached" for f in tw["fails"])
        if not twin_ok:
            inconclusive.append(f"{hname}: reachability twin did not reach the assertion (vacuous harness?) {tw['errors'][:1]}")
        # 2b. the exploration itself
        r = chx.explore(job.module, job.name, job.shards, job.budget, job.per_path_timeout, max_samples=job.max_samples)
        for k in ("paths", "PASS", "SKIP", "TRUNC", "unknown", "decisions", "solver_queries"):
            totals[k] += r[k]
        totals["solver_seconds"] += r["solver_seconds"]
        if r["errors"]:
            inconclusive.append(f"{hname}: {r['errors'][0]}")
        confirmed = []

        def triage(fails, limit):
            seen = set()
            for f in fails:
                key = (f["detail"] or "")[:80]
                if key in seen or len(seen) >= limit:
                    continue
                seen.add(key)
                args = chx.jsonable(f["args"])
                path = replay_file(pid, hname, args, f["detail"])
                verdict, detail = replay_concrete(path)
                totals["replayed"] += 1
                if verdict == "FAIL":
                    confirmed.append((path, detail))
                    return
                artefacts.append({"harness": hname, "args": args, "engine_detail": f["detail"], "replay": [verdict, detail]})
                os.unlink(path)

        triage(r["fails"], 5)
        if r["fails"] and not confirmed:
            # The engine's counterexample does not fail in a fresh interpreter (engine artefact, or a
            # failure that depends on what ran earlier in the engine process).  Do not stop there:
            # explore again without stopping at the first FAIL and triage every distinct failure.
            r2 = chx.explore(job.module, job.name, job.shards, job.budget, job.per_path_timeout, max_samples=job.max_samples, stop_on_fail=False)
            for k in ("paths", "PASS", "SKIP", "TRUNC", "unknown", "decisions", "solver_queries"):
                totals[k] += r2[k]
            totals["solver_seconds"] += r2["solver_seconds"]
            r["samples"] = r["samples"] or r2["samples"]
            triage(r2["fails"], 12)
            if not confirmed:
                # still nothing fails on its own: the failure may depend on what the real code remembers
                # from earlier calls (module-level state).  Replay the failing cases as ONE history.
                seq = [chx.jsonable(f["args"]) for f in r2["fails"][:60]]
                got = replay_sequence(pid, hname, seq, "history of cases executed in one process")
                totals["replayed"] += 1
                if got:
                    confirmed.append(got)
        for path, detail in confirmed[:1]:
            violations.append(path)
            print(f"VIOLATION property={pid} replay={path}", flush=True)
            print(f"  {hname}: {detail}", flush=True)
        exhausted = r["exhausted"] and not artefacts
        all_exhausted = all_exhausted and exhausted
        if job.must_exhaust and not exhausted and not confirmed:
            inconclusive.append(f"{hname}: path tree not exhausted within {job.budget}s ({r['shards_exhausted']}/{r['shards']} shards)")
        # 2c. validate a few explored paths against the implementation outside the engine
        validated = 0
        mod = importlib.import_module(job.module)
        fn = getattr(mod, job.name)
        step = max(1, len(r["samples"]) // job.validate_limit)
        chosen = r["samples"][::step][:job.validate_limit]
        from engine.verdicts import forked

        # (in a forked child: the code under test must not leave state in this process, from which later workers are forked)
        def _validate_all():
            out = []
            from engine.envmodel import adversarial_id

            # one process runs the whole series, with id() recycling dead objects' numbers (engine/envmodel.py): whatever the
            # code under test remembers from one case (memo tables, caches keyed by identity or by value) meets the next case
            with adversarial_id():
                results = [chx.run_concrete(fn, s) for s in chosen]
            for i, (s, (v, d)) in enumerate(zip(chosen, results)):
                desc = None
                if job.describe and (i < 12 or v != "PASS"):
                    try:
                        desc = chx.jsonable(job.describe(job.name, s))
                    except Exception as e:  # noqa: BLE001
                        desc = {"describe_error": repr(e)}
                out.append((v, d, desc))
            return out

        try:
            validated_results = forked(_validate_all)
        except RuntimeError as e:
            validated_results = []
            inconclusive.append(f"{hname}: concrete re-validation failed to run: {e}")
        for vi, (s, (v, d, desc)) in enumerate(zip(chosen, validated_results)):
            if v == "PASS":
                validated += 1
            elif v == "FAIL" and not any(p_.startswith(os.path.join(REPLAYS, f"{pid}-")) and hname in open(p_).read() for p_ in violations):
                # the engine said PASS on this path, the plain interpreter says FAIL (an engine model hides the failure, or the
                # failure depends on what the earlier re-validated cases left behind in the process): confirm it in a fresh
                # interpreter, alone or as the history of cases re-validated so far
                path = replay_file(pid, hname, chx.jsonable(s), d or "")
                v2, d2 = replay_concrete(path)
                totals["replayed"] += 1
                if v2 != "FAIL":
                    os.unlink(path)
                    got = replay_sequence(pid, hname, [chx.jsonable(x) for x in chosen[: vi + 1]], "history of re-validated cases executed in one process")
                    if not got:
                        artefacts.append({"harness": hname, "args": chx.jsonable(s), "engine_detail": "concrete re-validation failed only inside the validation process: " + str(d),
                                          "replay": [v2, d2]})
                        continue
                    path, d = got
                violations.append(path)
                print(f"VIOLATION property={pid} replay={path}", flush=True)
                print(f"  {hname} (found while re-validating an explored path concretely): {d}", flush=True)
            if job.describe and len(samples) < 12:
                samples.append({"harness": job.name, "case": desc})
            elif len(samples) < 12:
                samples.append({"harness": job.name, "args": chx.jsonable(s)})
        job_reports.append({
            "harness": hname, "bounds": job.bounds, "shards": r["shards"], "shards_exhausted": r["shards_exhausted"],
            "exhaustive": exhausted, "paths": r["paths"], "paths_passed": r["PASS"], "paths_skipped": r["SKIP"],
            "paths_truncated": r["TRUNC"], "paths_unknown": r["unknown"], "solver_decisions": r["decisions"],
            "solver_queries": r["solver_queries"], "solver_seconds": r["solver_seconds"], "wall_s": r["wall"],
            "twin_reached_assertion": twin_ok, "validated_concretely": validated, "rule": job.rule,
        })

    wall = round(time.time() - t0, 2)
    level = level_if_exhausted if (all_exhausted and jobs and not inconclusive) else "exploration"
    coverage: Dict[str, Any] = {
        "evaluations": totals["paths"],
        "distinct_nontrivial": totals["PASS"],
        "rule": "one evaluation = one completed symbolic path of a harness (a distinct decision sequence of the "
                "builder, the real code and the oracle; each path stands for every input that takes it); non-trivial "
                "= the path reached the oracle (SKIP = assumption failed and TRUNC = outside the tape bound are "
                "excluded). " + " | ".join(j.rule for j in jobs[:3]),
        "samples": samples or [{"note": "no path completed"}],
        "states": max(totals["PASS"], 0),
        "transitions": totals["decisions"],
        "traces_validated_against_impl": sum(j["validated_concretely"] for j in job_reports) + totals["replayed"],
        "exhaustive": bool(all_exhausted and jobs),
        "functions_encoded": functions,
        "jobs": job_reports,
        "solver_queries": totals["solver_queries"],
        "solver_seconds": round(totals["solver_seconds"], 2),
        "paths_skipped": totals["SKIP"],
        "paths_truncated": totals["TRUNC"],
        "paths_unknown": totals["unknown"],
        "engine_artefacts": artefacts[:5],
        "known_findings_reproduced": known_lines,
        "inconclusive": inconclusive,
        "engine": "crosshair-tool 0.0.110 (library driver engine/chx.py) + z3 " + _z3v(),
    }
    coverage.update(extra)
    if coverage["states"] < 1 or coverage["transitions"] < 1:
        level = "exploration"
    ev = {
        "property_id": pid, "tier": tier, "seed": seed, "level": level, "coverage": coverage,
        "assumptions": assumptions, "wall_s": wall, "violations": len(violations),
    }
    with open(os.path.join(EVIDENCE, f"{pid}.json"), "w") as f:
        json.dump(ev, f, indent=1, default=repr)
    status = 1 if violations else (2 if inconclusive else 0)
    print(f"[{pid} {tier}] paths={totals['paths']} reached-oracle={totals['PASS']} skipped={totals['SKIP']} "
          f"unknown={totals['unknown']} exhaustive={coverage['exhaustive']} solver_queries={totals['solver_queries']} "
          f"wall={wall}s -> exit {status}", flush=True)
    for msg in inconclusive:
        print(f"INCONCLUSIVE: {msg}", flush=True)
    return status


def _z3v():
    try:
        import z3

        return z3.get_version_string()
    except Exception:  # noqa: BLE001
        return "?"
