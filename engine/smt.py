"""E2 `smt` -- direct z3 queries (cross-checked with cvc5) over an SMT encoding of the SQL text that
the real make_query / list_modules hand to SQLite.

The SQL is obtained by calling the real functions, parsed by engine/sqlfront.py, and compiled to
z3 terms over a bounded symbolic relation: R rows, each (present, module, qualname, arg_types,
return_type, yield_type); module/qualname are z3 Strings of bounded length over printable ASCII,
the three JSON columns range over small integers (a designated value standing for NULL).
The hand-written SQLite semantics below is the trusted part; it is validated differentially against
real SQLite on solver-generated rows on every run (validate_selection).
"""
from __future__ import annotations

import time
from typing import Any, Dict, List, Optional

import z3

COLS = ("module", "qualname", "arg_types", "return_type", "yield_type")
NULL = 2  # value of return_type / yield_type standing for SQL NULL


class Stats:
    def __init__(self):
        self.queries = []

    def record(self, name, result, secs, solver="z3"):
        self.queries.append({"query": name, "result": str(result), "seconds": round(secs, 3), "solver": solver})


def ch(s, i):
    return z3.StrToCode(z3.SubString(s, i, 1))


def fold(c):
    return z3.If(z3.And(c >= 65, c <= 90), c + 32, c)


class Encoding:
    def __init__(self, n_rows=3, mod_len=2, qual_len=4, pat_len=3, tag=""):
        self.R, self.ML, self.QL, self.PL = n_rows, mod_len, qual_len, pat_len
        self.constraints: List[Any] = []
        self.rows = []
        for i in range(n_rows):
            row = {
                "present": z3.Bool(f"present{tag}_{i}"),
                "module": z3.String(f"module{tag}_{i}"),
                "qualname": z3.String(f"qualname{tag}_{i}"),
                "arg_types": z3.Int(f"arg{tag}_{i}"),
                "return_type": z3.Int(f"ret{tag}_{i}"),
                "yield_type": z3.Int(f"yld{tag}_{i}"),
                "date(created_at)": z3.Int(f"day{tag}_{i}"),  # the day the row was written (two days are enough to differ)
            }
            self.rows.append(row)
            self._bounded(row["module"], mod_len, 1)
            self._bounded(row["qualname"], qual_len, 0)
            self.constraints += [row["date(created_at)"] >= 0, row["date(created_at)"] <= 1]
            self.constraints += [row["arg_types"] >= 0, row["arg_types"] <= 1, row["return_type"] >= 0, row["return_type"] <= NULL,
                                 row["yield_type"] >= 0, row["yield_type"] <= NULL]
        self.M = z3.String(f"M{tag}")
        self.P = z3.String(f"P{tag}")
        self.n = z3.Int(f"n{tag}")
        self._bounded(self.M, mod_len, 1)
        self._bounded(self.P, pat_len, 0)
        self.constraints.append(self.n >= 0)  # SQLite's "negative LIMIT = unlimited" is outside the claim
        self.fresh = 0

    def _bounded(self, s, n, min_len):
        self.constraints += [z3.Length(s) <= n, z3.Length(s) >= min_len]
        for i in range(n):
            self.constraints.append(z3.Implies(i < z3.Length(s), z3.And(ch(s, i) >= 32, ch(s, i) <= 126)))

    # ---- SQLite LIKE / GLOB as a bounded dynamic-programming table
    def like(self, text, pat, pat_max, text_max, glob=False):
        any_seq, any_one = (42, 63) if glob else (37, 95)  # * ?  |  % _
        plen, tlen = z3.Length(pat), z3.Length(text)
        F = z3.BoolVal(False)
        # m[i][j]: pat[i:] matches text[j:]; built bottom-up as ONE shared term (no auxiliary
        # variables), so that the encoding can also be evaluated on concrete strings by substitution
        m = [[F for _ in range(text_max + 2)] for _ in range(pat_max + 2)]
        for i in range(pat_max, -1, -1):
            for j in range(text_max, -1, -1):
                pc, tc = ch(pat, i), ch(text, j)
                at_pend, at_tend = plen == i, tlen == j
                same = (pc == tc) if glob else (fold(pc) == fold(tc))
                body = z3.If(at_pend, at_tend,
                             z3.If(pc == any_seq, z3.Or(m[i + 1][j], z3.And(z3.Not(at_tend), m[i][j + 1])),
                                   z3.And(z3.Not(at_tend), z3.Or(pc == any_one, same), m[i + 1][j + 1])))
                m[i][j] = z3.And(i <= plen, j <= tlen, body)
        if glob:
            # character classes [...] are not modelled: patterns containing '[' are excluded (recorded)
            for i in range(pat_max):
                self.constraints.append(z3.Implies(i < plen, ch(pat, i) != 91))
        return m[0][0]

    # ---- compile the parsed SQL
    def cond(self, c, row, binding):
        col = row[c["col"]]

        def par(idx):
            v = binding[idx]
            return {"M": self.M, "P": self.P}[v] if v in ("M", "P") else v

        if c["op"] == "eq":
            return col == par(c["param"])
        if c["op"] in ("like", "glob"):
            pat = z3.Concat(par(c["param"]), z3.StringVal(c["suffix"])) if c["suffix"] else par(c["param"])
            tmax = self.QL if c["col"] == "qualname" else self.ML
            return self.like(col, pat, max(self.PL, self.ML) + len(c["suffix"]), tmax, glob=(c["op"] == "glob"))
        if c["op"] == "substr_eq":
            return z3.SubString(col, 0, z3.Length(par(c["len_param"]))) == par(c["param"])
        if c["op"] == "instr1":
            # instr(col, p) == 1: the FIRST occurrence of p in col is at position 1, i.e. col starts with p (instr(x, '') is 1,
            # and '' is a prefix of everything).  PrefixOf is the same predicate and far easier for the solvers than IndexOf
            return z3.PrefixOf(par(c["param"]), col)
        raise AssertionError(c)

    def same_on(self, a, b, cols):
        return z3.And(*[a[c] == b[c] for c in cols]) if cols else z3.BoolVal(True)

    def evaluate(self, q, binding, present=None):
        """Returns (out, count): out[i] = row i is (the representative of a group that is) returned,
        count = number of returned rows, for SOME admissible tie-breaking of ORDER BY."""
        rows = self.rows
        if present is None:
            present = [r["present"] for r in rows]
        if isinstance(q["source"], dict):
            inner_out, _ = self.evaluate(q["source"], binding, present)
            present = inner_out
            provided = set(COLS) | {"created_at", "date(created_at)"} if q["source"]["select"] == ["*"] else set(q["source"]["select"])
            if "created_at" in provided:
                provided.add("date(created_at)")
            if not (set(c["col"] for c in q["where"]) | set(q["group_by"] or []) | set(q["select"])) <= provided | {"*"}:
                from engine.sqlfront import Unsupported

                raise Unsupported("outer query uses a column the sub-select does not provide")
        sel = [z3.And(present[i], *[self.cond(c, rows[i], binding) for c in q["where"]]) for i in range(self.R)]
        if q["group_by"] is not None:
            rep = [z3.And(sel[i], *[z3.Not(z3.And(sel[j], self.same_on(rows[i], rows[j], q["group_by"]))) for j in range(i)]) for i in range(self.R)]
        else:
            rep = sel
        count = z3.Sum([z3.If(r, 1, 0) for r in rep])
        if q["limit"] is not None:
            lim = binding[q["limit"]]
            lim = self.n if lim == "n" else lim
            # the rows that survive LIMIT: an arbitrary subset of the representatives of the right size
            self.fresh += 1
            keep = [z3.Bool(f"keep{self.fresh}_{i}") for i in range(self.R)]
            for i in range(self.R):
                self.constraints.append(z3.Implies(keep[i], rep[i]))
            kept = z3.Sum([z3.If(k, 1, 0) for k in keep])
            self.constraints.append(kept == z3.If(lim < count, lim, count))
            return keep, kept
        return rep, count

    def spec(self, row, with_prefix):
        base = z3.And(row["present"], row["module"] == self.M)
        return z3.And(base, z3.PrefixOf(self.P, row["qualname"])) if with_prefix else base


def solve(name, enc: Encoding, goal, stats: Stats, timeout_ms=120000):
    s = z3.Solver()
    s.set("timeout", timeout_ms)
    s.add(*enc.constraints)
    s.add(goal)
    t = time.time()
    r = s.check()
    stats.record(name, r, time.time() - t)
    return str(r), (s.model() if str(r) == "sat" else None), s


def cvc5_check(smt2_text: str, timeout_ms=120000) -> str:
    """Run the same SMT-LIB text through the cvc5 1.4.0 wheel (not the older /usr/bin/cvc5)."""
    import cvc5

    slv = cvc5.Solver()
    slv.setOption("strings-exp", "true")
    slv.setOption("tlimit-per", str(timeout_ms))
    slv.setLogic("ALL")
    ip = cvc5.InputParser(slv)
    ip.setStringInput(cvc5.InputLanguage.SMT_LIB_2_6, smt2_text + "\n(check-sat)\n", "q")
    sm = ip.getSymbolManager()
    answer = "unknown"
    while True:
        cmd = ip.nextCommand()
        if cmd.isNull():
            break
        out = str(cmd.invoke(slv, sm)).strip()
        if out in ("sat", "unsat", "unknown"):
            answer = out
        elif "error" in out.lower():
            return "error: " + out[:200]
    return answer


def model_row(model, row) -> List[Any]:
    def s(x):
        v = model.eval(x, model_completion=True)
        return v.as_string() if hasattr(v, "as_string") else str(v)

    def i(x):
        return model.eval(x, model_completion=True).as_long()

    return [bool(model.eval(row["present"], model_completion=True)), s(row["module"]), s(row["qualname"]), i(row["arg_types"]), i(row["return_type"]), i(row["yield_type"]),
            i(row["date(created_at)"])]
