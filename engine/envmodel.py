"""Environment models shared by harnesses: parts of the interpreter whose CONTRACT is wider than what one run of one build
happens to do, so that a harness can hand the code under test any behaviour the contract allows."""
import heapq
import sys
import weakref

_real_id = id


class AdversarialId:
    """builtins.id as documented: 'unique among simultaneously existing objects' -- and nothing more.  Two objects with
    non-overlapping lifetimes may have the same id; CPython's allocator does that whenever a freed block is reused, which
    depends on allocation patterns no test controls.  This model makes it happen EVERY time it may: a dead object's number
    goes to the next object that asks.  (Objects that cannot be weakly referenced keep their real id, which is disjoint
    from the small numbers handed out here.)"""

    def __init__(self):
        self.free, self.next, self.live = [], 1, {}

    def __call__(self, obj):
        key = _real_id(obj)
        ent = self.live.get(key)
        if ent is not None and ent[1]() is obj:
            return ent[0]
        num = heapq.heappop(self.free) if self.free else self._fresh()
        try:
            ref = weakref.ref(obj, lambda _r, key=key, num=num: self._release(key, num))
        except TypeError:
            heapq.heappush(self.free, num)
            return key
        self.live[key] = (num, ref)
        return num

    def _fresh(self):
        n, self.next = self.next, self.next + 1
        return n

    def _release(self, key, num):
        ent = self.live.get(key)
        if ent is not None and ent[0] == num:
            del self.live[key]
        heapq.heappush(self.free, num)


class adversarial_id:
    """with adversarial_id(): every monkeytype module that does not define its own `id` sees the model above."""

    def __enter__(self):
        self.model, self.installed = AdversarialId(), []
        for name, mod in list(sys.modules.items()):
            if (name == "monkeytype" or name.startswith("monkeytype.")) and mod is not None and "id" not in mod.__dict__:
                mod.__dict__["id"] = self.model
                self.installed.append(mod)
        return self.model

    def __exit__(self, *exc):
        for mod in self.installed:
            mod.__dict__.pop("id", None)
        return False
