"""Re-execute a stored counterexample (or known-finding witness) concretely on /repo's current
tree, with no symbolic engine loaded.  Usage: python -m engine.replay <replay.json>"""
import importlib
import json
import sys


def main(path):
    rec = json.load(open(path))
    modname, fname = rec["harness"].rsplit(".", 1)
    mod = importlib.import_module(modname)
    fn = getattr(mod, fname)
    from engine import chx

    assert "crosshair" not in sys.modules, "replay must run without the engine"
    index = None
    if "sequence" in rec:
        # a history: the cases are executed in order in this one process (state that the real code
        # keeps between calls, e.g. a module-level cache, is part of the counterexample)
        verdict, detail = "PASS", None
        from engine.envmodel import adversarial_id

        with adversarial_id():  # as in the run that found it (engine/envmodel.py): id() may reuse a dead object's number
            for index, args in enumerate(rec["sequence"]):
                verdict, detail = chx.run_concrete(fn, args)
                if verdict == "FAIL":
                    rec["args"] = args
                    detail = f"after {index} earlier case(s) in the same process: {detail}"
                    break
            else:
                rec["args"] = rec["sequence"][-1]
    else:
        verdict, detail = chx.run_concrete(fn, rec["args"])
    desc = None
    d = getattr(mod, "describe", None)
    if d is not None:
        try:
            desc = chx.jsonable(d(fname, rec["args"]))
        except Exception as e:  # noqa: BLE001
            desc = "describe failed: %r" % (e,)
    if desc is not None:
        print("CASE", json.dumps(desc, default=repr))
    print("REPLAY " + json.dumps({"verdict": verdict, "detail": detail, "harness": rec["harness"], "index": index}))
    return 1 if verdict == "FAIL" else 0


if __name__ == "__main__":
    sys.exit(main(sys.argv[1]))
