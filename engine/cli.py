"""bin/check entry point: dispatch a property id and tier to its plan and run it."""
import importlib
import os
import sys


def main(argv):
    if len(argv) < 1:
        print("usage: check <ID> [quick|thorough]")
        return 2
    pid = argv[0].upper()
    tier = argv[1] if len(argv) > 1 else os.environ.get("VERIF_TIER", "quick")
    if tier not in ("quick", "thorough"):
        print("tier must be quick or thorough")
        return 2
    try:
        mod = importlib.import_module("checks." + pid.lower())
    except ModuleNotFoundError as e:
        print(f"no check for {pid}: {e}")
        return 2
    try:
        return mod.run(tier)
    except Exception:  # noqa: BLE001 - a harness/engine error is inconclusive, never a violation
        import traceback

        traceback.print_exc()
        print(f"INCONCLUSIVE: check {pid} crashed (harness or engine error)")
        return 2


if __name__ == "__main__":
    sys.exit(main(sys.argv[1:]))
